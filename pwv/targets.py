"""Importable harness targets (must be importable in spawn children: /verif is on PYTHONPATH)."""
import os
import time

_calls = {}


class PoisonError(Exception):
    pass


def gate_target(x, widx=0, gdir=None):
    """Blocks until the replayer opens gate <widx>.<n> (n = how many-th call in this worker), then answers x*10 or raises."""
    key = (os.getpid(), widx, gdir)
    n = _calls.get(key, 0) + 1
    _calls[key] = n
    path = os.path.join(gdir, '%d.%d' % (widx, n))
    while True:
        try:
            with open(path) as f:
                what = f.read()
            if what:
                break
        except FileNotFoundError:
            pass
        time.sleep(0.001)
    if what.startswith('raise'):
        raise PoisonError(x)
    return x * 10


def reset_calls():
    _calls.clear()
