"""Importable harness targets (must be importable in spawn children: /verif is on PYTHONPATH)."""
import os
import time

_calls = {}


class PoisonError(Exception):
    pass


def gate_target(x, widx=0, gdir=None):
    """Blocks until the replayer opens gate <widx>.<n> (n = how many-th call in this worker), then answers x*10 or raises."""
    key = (os.getpid(), widx, gdir)
    n = _calls.get(key, 0) + 1
    _calls[key] = n
    path = os.path.join(gdir, '%d.%d' % (widx, n))
    while True:
        try:
            with open(path) as f:
                what = f.read()
            if what:
                break
        except FileNotFoundError:
            pass
        time.sleep(0.001)
    if what.startswith('raise'):
        raise PoisonError(x)
    return x * 10


def reset_calls():
    _calls.clear()


# ---- LAND targets: finite, deterministic line paths -------------------------------------------------------------
def t_loop(marker=None, n=3):
    x = 0
    for i in range(n):
        x += i
    return 7


def t_tryfinally(marker=None, n=3):
    x = 0
    try:
        for i in range(n):
            x += i
    finally:
        if marker:
            with open(marker, 'a') as f:
                f.write('f')
    return 7


def t_raise(marker=None, n=2):
    x = 0
    for i in range(n):
        x += i
    raise ValueError('a', 1)


def t_ret_now(marker=None):
    return 7


def t_raise_now(marker=None):
    raise ValueError('a', 1)


def t_none(marker=None):
    return None


def t_zero(marker=None):
    return 0


def t_big(marker=None, size=1 << 20):
    return b'x' * size


class MyBaseExc(BaseException):
    pass


def t_baseexc(marker=None):
    raise MyBaseExc('base', 2)


def t_sysexit(marker=None):
    raise SystemExit(3)


class NeedsTwo(Exception):
    def __init__(self, a, b):
        super().__init__('%s-%s' % (a, b))
        self.a = a
        self.b = b


def t_unrebuildable_exc(marker=None):
    raise NeedsTwo(1, 2)


class BadResult:
    def __reduce__(self):
        return (_explode, ())


def _explode():
    raise RuntimeError('cannot be rebuilt')


def t_unrebuildable_result(marker=None):
    return BadResult()


def p_echo(x, marker=None):
    y = x * 10
    return y


def p_poison(x, marker=None):
    if x == 99:
        raise ValueError('poison', x)
    return x * 10


def p_big(x, marker=None):
    """A persistent target whose results are much bigger than one buffer."""
    return b'r' * 100000


def p_sysexit(x, marker=None):
    """A persistent target that leaves with something which is not an Exception on input 99."""
    if x == 99:
        raise SystemExit(3)
    return x * 10


def p_badresult(x, marker=None):
    """A persistent target whose answer to 99 cannot be recreated by whoever receives it."""
    if x == 99:
        return BadResult()
    return x * 10


# ---- C05: echo targets -----------------------------------------------------------------------------------------------
def echo(*a, **k):
    if a and a[0] == 'POISON':
        raise ValueError('poisoned')
    return [list(a), sorted([kk, vv] for kk, vv in k.items())]


def echo_pad(*a, **k):
    """echo with a result much bigger than a socket buffer."""
    if a and a[0] == 'POISON':
        raise ValueError('poisoned')
    return [list(a), sorted([kk, vv] for kk, vv in k.items()), b'p' * 400000]


def echo_mut(*a, **k):
    """Returns what it was called with, then vandalises every mutable argument in place."""
    import copy
    if a and a[0] == 'POISON':
        raise ValueError('poisoned')
    snap = copy.deepcopy([list(a), sorted([kk, vv] for kk, vv in k.items())])
    for x in a:
        if isinstance(x, list):
            x.append('dirty')
        elif isinstance(x, dict):
            x['dirty'] = 1
    for x in k.values():
        if isinstance(x, list):
            x.append('dirty')
        elif isinstance(x, dict):
            x['dirty'] = 1
    return snap


def falsy(x=None, **k):
    return {0: None, 1: '', 2: 0, 3: [], 4: b'y' * (1 << 20)}.get(x, x)


# ---- C02: direct-call equivalence -----------------------------------------------------------------------------------------
class Point:
    def __init__(self, x, y):
        self.x, self.y = x, y

    def __eq__(self, o):
        return type(o) is Point and (o.x, o.y) == (self.x, self.y)

    def __repr__(self):
        return 'Point(%r, %r)' % (self.x, self.y)


class CustomErr(Exception):
    pass


def _slow_rebuild(x):
    import time as _t
    _t.sleep(0.4)
    return SlowValue(x)


class SlowValue:
    """Takes the receiving side 0.4 s to recreate (while that thread is busy with it other threads unpickle other messages)."""
    def __init__(self, x):
        self.x = x

    def __reduce__(self):
        return (_slow_rebuild, (self.x,))

    def __eq__(self, other):
        return type(other) is SlowValue and other.x == self.x


VALUES = {
    'none': lambda: None, 'zero': lambda: 0, 'empty-str': lambda: '', 'empty-list': lambda: [], 'false': lambda: False,
    'nested': lambda: {'a': [1, (2, 3), {'b': {4}}], 'c': None}, 'obj': lambda: Point(1, [2]),
    'b0': lambda: b'', 'b1': lambda: b'z', 'b64k': lambda: b'k' * 65536, 'b64k1': lambda: b'k' * 65537,
    'many': lambda: [{'i': i} for i in range(120000)],       # takes the receiving side a while to recreate
    'slowobj': lambda: [SlowValue(3), 'tail'],
    # values whose types are picklable only through a copyreg registration
    'regex': lambda: __import__('re').compile('a+b', 2), 'union': lambda: [int | str, complex(1, 2)],
    'b208k1': lambda: b'q' * 212993, 'b1m': lambda: b'm' * (1 << 20), 'b4m': lambda: b'M' * (4 << 20),
}
EXCS = {
    've0': lambda: ValueError(), 've2': lambda: ValueError('m', 2), 'ke': lambda: KeyError('k'), 'custom': lambda: CustomErr('x', 3),
    'oserr': lambda: OSError(2, 'nope'),
    # exception classes the library itself handles somewhere on its own paths: raised by the target they are just its error
    'bpe': lambda: BrokenPipeError(32, 'Broken pipe'), 'eof': lambda: EOFError('e'), 'crst': lambda: ConnectionResetError(104, 'reset'),
    'empty': lambda: __import__('queue').Empty(), 'cce': lambda: __import__('pyworkers.remote', fromlist=['x']).ConnectionClosedError(),
    'wce': lambda: __import__('pyworkers.persistent', fromlist=['x']).WorkerClosedError('w'), 'timeout': lambda: TimeoutError('t'),
    'assert': lambda: AssertionError('a'), 'stop': lambda: StopIteration(3),
}


def _note(count_file):
    if count_file:
        with open(count_file, 'a') as f:
            f.write('x\n')


def ret_value(which, count_file=None):
    _note(count_file)
    return VALUES[which]()


def raise_exc(which, count_file=None):
    _note(count_file)
    raise EXCS[which]()


def echo_args(*a, count_file=None, **k):
    _note(count_file)
    return [list(a), sorted([kk, vv] for kk, vv in k.items())]


# ---- C17 / C04 / C09: slow, stubborn and blocking targets -----------------------------------------------------------------
def slow_echo(x, delay=0.1, size=0, marker=None):
    import time as _t
    if x == 'POISON':
        raise ValueError('poisoned')
    if x == 'STUBBORN':
        while True:
            try:
                while True:
                    _t.sleep(0.002)
            except BaseException:  # noqa
                pass
    if x == 'STUBBORN-SIGIGN':
        # swallows every exception and ignores SIGTERM as well: only SIGKILL ends it
        import signal as _sg
        _sg.signal(_sg.SIGTERM, _sg.SIG_IGN)
        while True:
            try:
                while True:
                    _t.sleep(0.002)
            except BaseException:  # noqa
                pass
    if x == 'GILHOG':
        # holds the interpreter lock inside a C call: no Python thread of this process runs until a signal ends the call
        import ctypes as _ct
        _ct.PyDLL(None).sleep(1000)
        return [x]
    if x == 'LINGER':
        # leaves a non-daemon thread behind: the process does not exit when the work is over
        import threading as _th
        _th.Thread(target=_t.sleep, args=(3600,)).start()
        return [x]
    if x == 'SLOWUNWIND':
        # cooperative, but its clean-up takes a while (well within the default grace period of terminate())
        try:
            while True:
                _t.sleep(0.002)
        finally:
            end = _t.monotonic() + 0.6
            while _t.monotonic() < end:
                try:
                    _t.sleep(0.002)
                except BaseException:  # noqa  (a repeated request does not shorten the clean-up)
                    pass
    _t.sleep(delay)
    if size:
        return [x, 'p' * size]
    return [x]


def stubborn(x=None, ready_file=None):
    """Swallows every exception and keeps going: cannot be stopped gracefully."""
    import time as _t
    if ready_file:
        with open(ready_file, 'w') as f:
            f.write('r')
    while True:
        try:
            while True:
                _t.sleep(0.002)
        except BaseException:  # noqa
            pass


def stubborn_sigign(x=None, ready_file=None):
    """Swallows every exception and ignores SIGTERM: only SIGKILL ends it."""
    import time as _t
    import signal as _sg
    _sg.signal(_sg.SIGTERM, _sg.SIG_IGN)
    if ready_file:
        with open(ready_file, 'w') as f:
            f.write('r')
    while True:
        try:
            while True:
                _t.sleep(0.002)
        except BaseException:  # noqa
            pass


def cooperative(x=None, ready_file=None):
    import time as _t
    if ready_file:
        with open(ready_file, 'w') as f:
            f.write('r')
    while True:
        _t.sleep(0.002)


def long_sleep(x=None, ready_file=None):
    import time as _t
    if ready_file:
        with open(ready_file, 'w') as f:
            f.write('r')
    _t.sleep(1000)


def gil_hog(x=None, ready_file=None):
    """Holds the interpreter lock inside a C call: no Python thread of this process can run."""
    import ctypes
    if ready_file:
        with open(ready_file, 'w') as f:
            f.write('r')
    ctypes.PyDLL(None).sleep(1000)


def quick_ret(x=None, ready_file=None):
    return 5


def ret_after(x=None, delay=0.2):
    import time as _t
    _t.sleep(delay)
    return 5


def linger_ret(x=None, ready_file=None):
    """Returns at once but leaves a non-daemon thread behind: the work is over, the process stays."""
    import time as _t
    import threading as _th
    _th.Thread(target=_t.sleep, args=(3600,)).start()
    if ready_file:
        with open(ready_file, 'w') as f:
            f.write('r')
    return 5


def raise_soon(x=None, ready_file=None):
    """Tells the harness it has started and dies of an exception right away: the caller meets a worker which is going down."""
    if ready_file:
        with open(ready_file, 'w') as f:
            f.write('r')
    raise ValueError('dying')


# ---- C18: context targets ---------------------------------------------------------------------------------------------------
def ctx_a(x, tag='a0', exp=1):
    if x == 'SLEEP':
        import time as _t
        _t.sleep(30)          # one long call the termination request cannot interrupt
    return ['a', tag, x, exp]


def ctx_b(x, tag='b0', exp=2):
    if x == 'SLEEP':
        import time as _t
        _t.sleep(30)
    return ['b', tag, x, exp]


def square(x):
    return x * x


def t_ret_50ms(marker=None):
    """Ends on its own a moment after the constructor has returned."""
    import time as _t
    _t.sleep(0.05)
    return 7


def t_spin(marker=None):
    """Interruptible Python loop that never ends on its own."""
    import time as _t
    while True:
        _t.sleep(0.001)
