"""GRAPH engine: bounded-exhaustive generation of object graphs and class hierarchies for remote_pickle.

A graph is described by a *spec* (nested tuples, JSON-able), built into real objects on demand:
  ('i', v)                       scalar
  ('L', [spec...])               list            ('T', [...]) tuple        ('S', [scalars]) set
  ('D', [(key, spec)...])        dict
  ('P', [(attr, spec)...])       instance of the plain class Plain
  ('R', variant, [(attr, spec)]) instance of an opt-in class (variants below)
  ('ref', n)                     back-edge to the n-th container/instance node in pre-order (sharing or cycle)
"""
import itertools

LOG = []          # ('get', uid, remote) / ('set', uid) events of opt-in instances
_uid = [0]


def new_uid():
    _uid[0] += 1
    return _uid[0]


class Plain:
    def __init__(self):
        pass


def _mk_getstate(kind):
    if kind == 'dict':
        def __getstate__(self, remote=False):
            LOG.append(('get', self.__dict__.get('uid'), bool(remote)))
            st = dict(self.__dict__)
            st['_how'] = 'remote' if remote else 'local'
            return st
    else:
        def __getstate__(self, remote=False):
            LOG.append(('get', self.__dict__.get('uid'), bool(remote)))
            return ('remote' if remote else 'local', sorted(self.__dict__.items(), key=lambda kv: kv[0]))
    return __getstate__


def _setstate_dict(self, state):
    self.__dict__.update(state)
    LOG.append(('set', self.__dict__.get('uid')))


def _setstate_tuple(self, state):
    how, items = state
    self.__dict__.update(dict(items))
    self.__dict__['_how'] = how
    LOG.append(('set', self.__dict__.get('uid')))


def _getstate_falsy(self, remote=False):
    LOG.append(('get', self.__dict__.get('uid'), bool(remote)))
    if remote:
        return {}          # nothing is transmitted, __setstate__ rebuilds everything on the other side
    return dict(self.__dict__)


def _setstate_falsy(self, state):
    self.__dict__.update(state)
    if not state:
        self.__dict__['_rebuilt'] = True
    LOG.append(('set', self.__dict__.get('uid')))


def build_optin_classes():
    """Created lazily (needs pyworkers). Returned dict variant -> class; classes live in this module's globals."""
    from pyworkers.remote_pickle import SupportRemoteGetState
    g = globals()
    if 'RBase' in g:
        return {k: g[k] for k in VARIANTS}
    RFalsy = type('RFalsy', (SupportRemoteGetState,), {'__getstate__': _getstate_falsy, '__setstate__': _setstate_falsy, '__module__': __name__})
    RBase = type('RBase', (SupportRemoteGetState,), {'__getstate__': _mk_getstate('dict'), '__setstate__': _setstate_dict, '__module__': __name__})
    RDuck = type('RDuck', (object,), {'__getstate__': _mk_getstate('dict'), '__setstate__': _setstate_dict, '__module__': __name__})
    RNoSet = type('RNoSet', (SupportRemoteGetState,), {'__getstate__': _mk_getstate('dict'), '__module__': __name__})
    RTuple = type('RTuple', (SupportRemoteGetState,), {'__getstate__': _mk_getstate('tuple'), '__setstate__': _setstate_tuple, '__module__': __name__})
    for c in (RBase, RDuck, RNoSet, RTuple, RFalsy):
        c.__qualname__ = c.__name__
        g[c.__name__] = c
    return {k: g[k] for k in VARIANTS}


VARIANTS = ('RBase', 'RDuck', 'RNoSet', 'RTuple', 'RFalsy')


# ---------------------------------------------------------------------------------------------------
def build(spec):
    """Spec -> real objects. Returns (root, nodes) where nodes is the pre-order list of container/instance objects."""
    classes = build_optin_classes()
    nodes = []
    fixups = []

    def mk(s, setter=None):
        k = s[0]
        if k == 'i':
            return s[1]
        if k == 'ref':
            return ('__ref__', s[1])
        if k == 'L':
            o = []
            nodes.append(o)
            for c in s[1]:
                v = mk(c)
                if isinstance(v, tuple) and v and v[0] == '__ref__':
                    idx = len(o)
                    o.append(None)
                    fixups.append((lambda o=o, idx=idx, n=v[1]: o.__setitem__(idx, nodes[n])))
                else:
                    o.append(v)
            return o
        if k == 'T':
            slot = len(nodes)
            nodes.append(None)
            items = [mk(c) for c in s[1]]
            # refs inside tuples may only point to earlier (already built) nodes
            items = [nodes[v[1]] if isinstance(v, tuple) and v and v[0] == '__ref__' else v for v in items]
            o = tuple(items)
            nodes[slot] = o
            return o
        if k == 'S':
            o = set(s[1])
            nodes.append(o)
            return o
        if k == 'D':
            o = {}
            nodes.append(o)
            for key, c in s[1]:
                v = mk(c)
                if isinstance(v, tuple) and v and v[0] == '__ref__':
                    o[key] = None
                    fixups.append((lambda o=o, key=key, n=v[1]: o.__setitem__(key, nodes[n])))
                else:
                    o[key] = v
            return o
        if k in ('P', 'R'):
            if k == 'P':
                o = Plain()
                attrs = s[1]
            else:
                o = classes[s[1]].__new__(classes[s[1]])
                o.__dict__['uid'] = new_uid()
                attrs = s[2]
            nodes.append(o)
            for a, c in attrs:
                v = mk(c)
                if isinstance(v, tuple) and v and v[0] == '__ref__':
                    o.__dict__[a] = None
                    fixups.append((lambda o=o, a=a, n=v[1]: o.__dict__.__setitem__(a, nodes[n])))
                else:
                    o.__dict__[a] = v
            return o
        raise ValueError(s)
    root = mk(spec)
    for f in fixups:
        f()
    return root, nodes


def canon(obj, with_how=True):
    """Structural canonical form with sharing: containers/instances are numbered in traversal order."""
    seen = {}

    def c(o):
        if o is None or isinstance(o, (bool, int, float, str, bytes)):
            return o
        i = id(o)
        if i in seen:
            return ('ref', seen[i])
        if isinstance(o, (list, tuple, dict, set, frozenset)) or hasattr(o, '__dict__'):
            seen[i] = len(seen)
        if isinstance(o, list):
            return ('L', [c(x) for x in o])
        if isinstance(o, tuple):
            return ('T', [c(x) for x in o])
        if isinstance(o, (set, frozenset)):
            return ('S', sorted(repr(x) for x in o))
        if isinstance(o, dict):
            return ('D', [(k, c(v)) for k, v in o.items()])
        if hasattr(o, '__dict__'):
            d = o.__dict__
            items = [(k, c(v)) for k, v in sorted(d.items(), key=lambda kv: kv[0])
                     if k != '__setstate__' and (with_how or k != '_how')]
            extra = []
            if '__setstate__' in d:
                extra = [('!leftover-instance-__setstate__', True)]
            return ('O', type(o).__name__, items + extra)
        return ('?', repr(o))
    return c(obj)


# ---------------------------------------------------------------------------------------------------
def count_nodes(s):
    k = s[0]
    if k in ('i', 'ref'):
        return 1
    if k == 'S':
        return 1
    if k in ('L', 'T'):
        return 1 + sum(count_nodes(c) for c in s[1])
    if k == 'D':
        return 1 + sum(count_nodes(c) for _, c in s[1])
    if k == 'P':
        return 1 + sum(count_nodes(c) for _, c in s[1])
    if k == 'R':
        return 1 + sum(count_nodes(c) for _, c in s[2])


def compositions_ordered(total, parts):
    if parts == 1:
        yield (total,)
        return
    for first in range(1, total - parts + 2):
        for rest in compositions_ordered(total - first, parts - 1):
            yield (first,) + rest


def gen_trees(n, kinds, variants, depth=4, max_children=3, _memo=None):
    """All ordered trees with exactly n nodes over the node kinds (scalars are leaves), depth <= depth."""
    if _memo is None:
        _memo = {}
    key = (n, depth)
    if key in _memo:
        return _memo[key]
    out = []
    if n == 1:
        out.append(('i', 7))
        # empty containers / attribute-less instances
        for k in kinds:
            if k == 'L':
                out.append(('L', []))
            elif k == 'D':
                out.append(('D', []))
            elif k == 'S':
                out.append(('S', [1, 2]))
            elif k == 'P':
                out.append(('P', []))
            elif k == 'R':
                for v in variants:
                    out.append(('R', v, []))
    elif depth > 1:
        for nch in range(1, min(max_children, n - 1) + 1):
            for comp in compositions_ordered(n - 1, nch):
                child_lists = [gen_trees(c, kinds, variants, depth - 1, max_children, _memo) for c in comp]
                for combo in itertools.product(*child_lists):
                    for k in kinds:
                        if k == 'L':
                            out.append(('L', list(combo)))
                        elif k == 'T':
                            out.append(('T', list(combo)))
                        elif k == 'D':
                            out.append(('D', [('k%d' % i, c) for i, c in enumerate(combo)]))
                        elif k == 'P':
                            out.append(('P', [('a%d' % i, c) for i, c in enumerate(combo)]))
                        elif k == 'R':
                            for v in variants:
                                out.append(('R', v, [('a%d' % i, c) for i, c in enumerate(combo)]))
    _memo[key] = out
    return out


def preorder(spec):
    """Pre-order list of (path, spec) of container/instance nodes, in the numbering build() uses."""
    out = []

    def walk(s, path):
        k = s[0]
        if k in ('i', 'ref'):
            return
        out.append((path, s))
        if k in ('L', 'T'):
            for i, c in enumerate(s[1]):
                walk(c, path + (i,))
        elif k == 'D' or k == 'P':
            for i, (_, c) in enumerate(s[1]):
                walk(c, path + (i,))
        elif k == 'R':
            for i, (_, c) in enumerate(s[2]):
                walk(c, path + (i,))
    walk(spec, ())
    return out


def with_backedges(spec):
    """Every way to add exactly one back-edge: a new last child ('ref', n) under a holder node h (list, dict, plain or
    opt-in instance; tuples only for targets built earlier), pointing to any other container/instance node n or to h's
    ancestors/itself (cycle)."""
    nodes = preorder(spec)
    res = []
    for hi, (hpath, hs) in enumerate(nodes):
        if hs[0] in ('S',):
            continue
        for ti, (tpath, ts) in enumerate(nodes):
            if hs[0] == 'T':
                # a tuple can only hold an already-completed node: not itself or an ancestor; and earlier in pre-order
                if ti >= hi or hpath[:len(tpath)] == tpath:
                    continue
            if ts[0] == 'S' and hs[0] == 'S':
                continue
            res.append(add_child(spec, hpath, ('ref', ti)))
    return res


def add_child(spec, path, child):
    k = spec[0]
    if not path:
        if k in ('L', 'T'):
            return (k, list(spec[1]) + [child])
        if k == 'D':
            return ('D', list(spec[1]) + [('kr', child)])
        if k == 'P':
            return ('P', list(spec[1]) + [('ar', child)])
        if k == 'R':
            return ('R', spec[1], list(spec[2]) + [('ar', child)])
        raise ValueError(spec)
    i = path[0]
    if k in ('L', 'T'):
        ch = list(spec[1])
        ch[i] = add_child(ch[i], path[1:], child)
        return (k, ch)
    if k in ('D', 'P'):
        ch = list(spec[1])
        ch[i] = (ch[i][0], add_child(ch[i][1], path[1:], child))
        return (k, ch)
    if k == 'R':
        ch = list(spec[2])
        ch[i] = (ch[i][0], add_child(ch[i][1], path[1:], child))
        return ('R', spec[1], ch)


def features(spec):
    """Shape features used for failure signatures (which class of graph a failure belongs to)."""
    f = set()
    nodes = preorder(spec)
    kinds = [s[0] for _, s in nodes]
    nopt = sum(1 for _, s in nodes if s[0] == 'R')
    f.add('optin%d' % min(nopt, 4))

    def direct_optin_children(s):
        n = 0
        refs = []
        for a, c in s[2]:
            if c[0] == 'R':
                n += 1
            elif c[0] == 'ref' and nodes[c[1]][1][0] == 'R':
                n += 1
                refs.append(c[1])
        return n
    for path, s in nodes:
        if s[0] == 'R':
            if s[1] == 'RNoSet':
                f.add('no-setstate')
            if s[1] == 'RTuple':
                f.add('tuple-state')
            if s[1] == 'RDuck':
                f.add('duck')
            if s[1] == 'RFalsy':
                f.add('falsy-state')
            n = direct_optin_children(s)
            if n >= 2:
                f.add('siblings2+')
            if n >= 1:
                f.add('optin-child')
            # a non-dict (tuple) state is itself a container: opt-in objects among its items are container-held
            if s[1] == 'RTuple' and any(_contains_optin(c, nodes) for a, c in s[2]):
                f.add('optin-in-container-under-optin')
            # opt-in object held in a container (or plain object) that is itself below an opt-in object
            for a, c in s[2]:
                if c[0] in ('L', 'T', 'D', 'P') and _contains_optin(c, nodes):
                    f.add('optin-in-container-under-optin')
        if s[0] in ('L', 'T', 'D', 'P') and not path and _contains_optin(s, nodes):
            f.add('plain-top-with-optin-inside')
    if any(c[0] == 'ref' for c in _all(spec)):
        f.add('backedge')
        for c in _all(spec):
            if c[0] == 'ref' and nodes[c[1]][1][0] == 'R':
                f.add('backedge-to-optin')
    return f


def _contains_optin(s, nodes):
    for c in _all(s):
        if c[0] == 'R':
            return True
        if c[0] == 'ref' and nodes[c[1]][1][0] == 'R':
            return True
    return False


def _all(s):
    yield s
    k = s[0]
    if k in ('L', 'T'):
        for c in s[1]:
            yield from _all(c)
    elif k in ('D', 'P'):
        for _, c in s[1]:
            yield from _all(c)
    elif k == 'R':
        for _, c in s[2]:
            yield from _all(c)


# ---------------------------------------------------------------------------------------------------------------------
class Collector:
    """Stand-in for the check context inside a worker process (counts, outcomes, first violations per signature)."""

    def __init__(self):
        self.n = 0
        self.outcomes = {}
        self.viol = {}
        self.sigcount = {}
        self.distinct_n = 0

    def count(self, n=1):
        self.n += n

    def distinct(self, key):
        self.distinct_n += 1

    def outcome(self, k):
        self.outcomes[k] = self.outcomes.get(k, 0) + 1

    def violation(self, sig, case, observed, expected, engine=None):
        self.sigcount[sig] = self.sigcount.get(sig, 0) + 1
        if sig not in self.viol:
            self.viol[sig] = (case, observed, expected, engine)


def merge_into(ctx, col):
    ctx.count(col.n)
    for k, v in col.outcomes.items():
        ctx.outcomes[k] = ctx.outcomes.get(k, 0) + v
    for sig, (case, observed, expected, engine) in col.viol.items():
        for _ in range(col.sigcount.get(sig, 1)):
            ctx.violation(sig, case, observed, expected, engine=engine)
    ctx.distinct_extra += col.distinct_n
    ctx.extra['distinct_in_parallel_shards'] = ctx.extra.get('distinct_in_parallel_shards', 0) + col.distinct_n


def parallel_chunks(func, items, extra=(), nproc=None, chunk=2000):
    """func(chunk_of_items, *extra) -> Collector; runs over forked workers and yields the collectors."""
    import os
    import multiprocessing
    nproc = nproc or min(16, os.cpu_count() or 4)
    jobs = [(func, items[i:i + chunk], extra) for i in range(0, len(items), chunk)]
    if len(jobs) <= 1:
        for j in jobs:
            yield _run_chunk(j)
        return
    with multiprocessing.get_context('fork').Pool(nproc) as pool:
        for col in pool.imap_unordered(_run_chunk, jobs):
            yield col


def _run_chunk(job):
    func, items, extra = job
    return func(items, *extra)
