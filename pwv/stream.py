"""STREAM engine: scripted sockets that serve a byte stream according to a segmentation plan."""
import itertools


class Budget(BaseException):
    """recv budget exhausted: the reader spins or blocks. BaseException so library code cannot swallow it."""


class WouldBlock(BaseException):
    """The reader asked for more bytes while the peer is alive but silent: it would block forever."""


class ScriptedSocket:
    """recv(n) returns min(n, rest of current segment) bytes: the POSIX stream contract.
    ending: 'FIN' -> b'' for ever after the data; 'RST' -> ConnectionResetError; 'MORE' -> WouldBlock."""

    def __init__(self, data, segments, ending='FIN', budget=100000):
        self.data = data
        self.segs = list(segments)   # lengths; must sum to len(data)
        assert sum(self.segs) == len(data), (sum(self.segs), len(data))
        self.pos = 0
        self.si = 0
        self.left = self.segs[0] if self.segs else 0
        self.ending = ending
        self.calls = 0
        self.empties = 0
        self.budget = budget
        self.sent = bytearray()
        self.closed = False

    def recv(self, n, flags=0):
        self.calls += 1
        if self.calls > self.budget:
            raise Budget('recv budget %d exhausted' % self.budget)
        while self.left == 0 and self.si < len(self.segs) - 1:
            self.si += 1
            self.left = self.segs[self.si]
        if self.left == 0:
            if self.ending == 'FIN':
                self.empties += 1
                if self.empties > 3:
                    raise Budget('reader keeps calling recv after end of stream (spin)')
                return b''
            if self.ending == 'RST':
                raise ConnectionResetError(104, 'Connection reset by peer')
            raise WouldBlock()
        if n <= 0:
            return b''
        k = min(n, self.left)
        out = self.data[self.pos:self.pos + k]
        self.pos += k
        self.left -= k
        return out

    def sendall(self, b):
        self.sent += b

    def close(self):
        self.closed = True


class CaptureSocket:
    def __init__(self):
        self.buf = bytearray()
        self.msg_ends = []

    def sendall(self, b, *flags):
        self.buf += b
        self.msg_ends.append(len(self.buf))

    # whichever call the sender uses: this kernel takes everything at once
    def send(self, b, *flags):
        self.buf += bytes(b)
        self.msg_ends.append(len(self.buf))
        return len(b)

    def sendmsg(self, buffers, *a):
        data = b''.join(bytes(x) for x in buffers)
        self.buf += data
        self.msg_ends.append(len(self.buf))
        return len(data)


class ShortWriteSocket(CaptureSocket):
    """The kernel takes at most caps[i] bytes in the i-th call of send()/sendmsg() (and everything in later calls) and says how many it
    took; sendall() is the one call which loops by itself."""

    def __init__(self, caps):
        super().__init__()
        self.caps = list(caps)
        self.calls = 0

    def _take(self, n):
        cap = self.caps[self.calls] if self.calls < len(self.caps) else n
        self.calls += 1
        return min(n, cap)

    def send(self, b, *flags):
        k = self._take(len(b))
        self.buf += bytes(b[:k])
        return k

    def sendmsg(self, buffers, *a):
        data = b''.join(bytes(x) for x in buffers)
        k = self._take(len(data))
        self.buf += data[:k]
        return k


def compositions(n):
    """All ways to cut n bytes into consecutive non-empty segments (2^(n-1))."""
    if n == 0:
        yield []
        return
    for mask in range(1 << (n - 1)):
        segs = []
        run = 1
        for i in range(n - 1):
            if mask >> i & 1:
                segs.append(run)
                run = 1
            else:
                run += 1
        segs.append(run)
        yield segs


def cuts_to_segments(n, cuts):
    cuts = sorted(set(c for c in cuts if 0 < c < n))
    segs = []
    prev = 0
    for c in cuts:
        segs.append(c - prev)
        prev = c
    segs.append(n - prev)
    return [s for s in segs if s > 0] if n else []


def interesting_offsets(n, boundaries, margin=16):
    """Offsets around message boundaries/headers plus powers of two."""
    s = set()
    marks = [0] + list(boundaries)
    for b in marks:
        for d in range(-margin, margin + 1):
            if 0 < b + d < n:
                s.add(b + d)
    p = 1
    while p < n:
        s.add(p)
        if p + 1 < n:
            s.add(p + 1)
        if p - 1 > 0:
            s.add(p - 1)
        p *= 2
    return sorted(s)
