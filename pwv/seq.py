"""SEQ: bounded operation histories against a reference model.

histories(): breadth-first; every history up to depth d_full; beyond it a history is extended only if the model's
abstract state after it is new (so every (abstract state, operation) pair is exercised from a shortest witness and
from longer ones), up to d_max."""
import collections


def histories(init_state, enabled, step, d_full, d_max, max_count=None):
    """init_state: hashable; enabled(state) -> list of ops; step(state, op) -> state. Yields (history tuple, state)."""
    seen = {init_state}
    frontier = collections.deque([((), init_state)])
    n = 0
    while frontier:
        hist, st = frontier.popleft()
        yield hist, st
        n += 1
        if max_count and n >= max_count:
            return
        if len(hist) >= d_max:
            continue
        for op in enabled(st):
            nst = step(st, op)
            if len(hist) + 1 <= d_full:
                seen.add(nst)
                frontier.append((hist + (op,), nst))
            elif nst not in seen:
                seen.add(nst)
                frontier.append((hist + (op,), nst))
