"""SEQ driver: executes an operation history (a list of op dicts) on real workers / pools / servers / contexts inside
a land.Driver process and records what every step returned, raised or how long it took. The property modules compare
these observations with their reference models."""
import os
import sys
import time
import signal
import importlib

from .land import KINDS, with_timeout, _rep, _guard


def pid_gone(pid, exiting_counts=False):
    """True if no such process, or it is a zombie (dead, waiting to be reaped). With exiting_counts (used where the library has
    *said* "dead" and the probe verifies it at once) also if the kernel is tearing it down (PF_EXITING: it runs no code of its own any
    more; its descriptors - the sentinel its parent waits on - are closed a moment before it turns into a zombie). Where a death is
    the *premise* of the next step the strict form is used: only then can the library find out through waitpid()."""
    try:
        with open('/proc/%d/stat' % pid) as f:
            fields = f.read().rsplit(')', 1)[-1].split()
        if fields[0] in ('Z', 'X'):
            return True
        if not exiting_counts:
            return False
        try:
            return bool(int(fields[6]) & 0x4)
        except (IndexError, ValueError):
            return False
    except (FileNotFoundError, ProcessLookupError):
        return True


def tagged_pids(run_id, exclude=()):
    """Every live process carrying PWV_RUN_ID=run_id in its environment (finds re-parented orphans too)."""
    out = []
    needle = ('PWV_RUN_ID=%s' % run_id).encode()
    for d in os.listdir('/proc'):
        if not d.isdigit():
            continue
        pid = int(d)
        if pid in exclude or pid == os.getpid():
            continue
        try:
            with open('/proc/%d/environ' % pid, 'rb') as f:
                env = f.read()
            if needle in env.split(b'\0') and not pid_gone(pid):
                with open('/proc/%d/cmdline' % pid, 'rb') as f:
                    cmd = f.read().replace(b'\0', b' ').decode('utf-8', 'replace')
                out.append((pid, cmd[:120]))
        except (OSError, ValueError):
            continue
    return out


def _ctxid(v):
    """Context ids which JSON cannot carry (tuples, frozensets, ...) travel as {'py': '<literal>'}."""
    if isinstance(v, dict) and set(v) == {'py'}:
        import ast
        return frozenset() if v['py'] == 'frozenset()' else ast.literal_eval(v['py'])
    return v


def _digest(v):
    """Long strings become 'str[N]:c' (c = the character they consist of, '?' if mixed)."""
    if isinstance(v, str) and len(v) > 1000:
        return 'str[%d]:%s' % (len(v), v[0] if v == v[0] * len(v) else '?')
    if isinstance(v, list):
        return [_digest(x) for x in v]
    if isinstance(v, dict):
        return {k: _digest(x) for k, x in v.items()}
    return v


class Script:
    def __init__(self, driver, case):
        self.d = driver
        self.case = case
        self.vars = {}
        self.steps = []
        self.pipes = {}
        self.run_id = 'seq-%d-%d' % (os.getpid(), driver.ncase)
        self.marker_dir = None

    def obj(self, name):
        return self.vars[name]

    def run(self):
        from pwv import targets  # noqa
        os.environ['PWV_RUN_ID'] = self.run_id
        os.environ.pop('PWV_SPEC', None)
        obs = {'case': self.case, 'steps': self.steps}
        try:
            for i, op in enumerate(self.case['script']):
                t0 = time.time()
                try:
                    r = self.step(op)
                except BaseException as e:  # noqa
                    r = {'harness_error': '%s: %s' % (type(e).__name__, e)}
                r['s'] = round(time.time() - t0, 3)
                self.steps.append(r)
                if r.get('hang') and op.get('stop_on_hang', True):
                    obs['stopped_at'] = i
                    break
        finally:
            obs['leftover'] = self.cleanup()
        return obs

    # -----------------------------------------------------------------------------------------------------------
    def raw(self, f, timeout):
        box = with_timeout(lambda: ('ret', f()), timeout, default='HANG')
        if box == 'HANG':
            return ('hang', None)
        if isinstance(box, str) and box.startswith('RAISES:'):
            return ('exc', box[7:])
        return ('ret', box[1])

    def call(self, f, timeout):
        box = with_timeout(lambda: ('ret', f()), timeout, default='HANG')
        if box == 'HANG':
            return {'hang': True}
        if isinstance(box, str) and box.startswith('RAISES:'):
            return {'exc': box[7:]}
        return {'ret': _rep(box[1])}

    def step(self, op):
        o = op['op']
        from pwv import targets
        if o == 'create':
            kind = op['kind']
            mod, clsname = KINDS[kind]
            cls = getattr(importlib.import_module(mod), clsname)
            if op.get('wcls'):
                from pwv import statew
                cls = getattr(statew, op['wcls'] + '_' + kind)
            kw = dict(op.get('ctor', {}))
            if 'context' in kw:
                kw['context'] = _ctxid(kw['context'])
            if kw.get('context') == '<c11-ctx>':
                # a healthy client's worker inside the very context the faulty requests address
                self.c11_record('worker-in-ctx')
                live = getattr(self.d, 'c11_live_ctx', None)
                kw['context'] = live[1]
            if kind in ('R', 'PR'):
                if op.get('host') == 'fake':
                    kw['host'] = self.fake_addr
                else:
                    kw['host'] = self.d.get_server().addr if 'host' not in op else tuple(op['host'])
            if 'args' in op:
                kw['args'] = op['args'] if not op.get('args_tuple') else tuple(op['args'])
            if 'kwargs' in op:
                kw['kwargs'] = dict(op['kwargs'])
            if 'run' in op:
                kw['run'] = op['run']
            if 'init_state' in op:
                kw['init_state'] = op['init_state']
            if 'init_state_from' in op:
                kw['init_state'] = self.obj(op['init_state_from']).user_state
            if op.get('pipe') == 'slow-marker':
                # a caller-supplied results channel whose consumer is slow exactly when the end-of-stream marker arrives:
                # a parent-side delay point for the thread that forwards results
                from pyworkers.utils import LocalPipe, Queue as _Q

                class SlowQ(_Q):
                    def put(self, item, *a, **k):
                        if isinstance(item, tuple) and len(item) == 4 and item[1] is False:
                            time.sleep(op.get('marker_delay', 1.2))
                        return super().put(item, *a, **k)

                class SlowPipe(LocalPipe):
                    def __init__(self):
                        self._q = SlowQ()
                p = SlowPipe()
                self.pipes[op['var']] = p
                kw['results_pipe'] = p
            if op.get('pipe') == 'supplied':
                from pyworkers.utils import Pipe
                p = Pipe()
                self.pipes[op['var']] = p
                kw['results_pipe'] = p
            target = getattr(targets, op['target']) if op.get('target') else None
            if op.get('slow_reader') and kind in ('R', 'PR'):
                # the parent reads its data connection slowly (small reads with pauses): a parent-side schedule
                sr = op['slow_reader']

                class Throttled:
                    def __init__(self, sock):
                        self._s = sock

                    def recv(self, n, *a):
                        time.sleep(sr.get('sleep', 0.02))
                        return self._s.recv(min(n, sr.get('chunk', 8192)), *a)

                    def __getattr__(self, name):
                        return getattr(self._s, name)
                base_cls = cls
                orig = base_cls._fetch_results

                def slow_fetch(wself):
                    wself._socket = Throttled(wself._socket)
                    return orig(wself)
                base_cls._fetch_results = slow_fetch          # (a subclass could not be pickled by reference)
                self.class_patches = getattr(self, 'class_patches', [])
                self.class_patches.append((base_cls, '_fetch_results', orig))

            def mk():
                if op.get('factory'):
                    from pyworkers.worker import Worker, WorkerType
                    from pyworkers.persistent import PersistentWorker
                    wt = {'T': WorkerType.THREAD, 'P': WorkerType.PROCESS, 'R': WorkerType.REMOTE}[kind[-1]]
                    base = PersistentWorker if len(kind) == 2 else Worker
                    return base.create(wt, target, **kw)
                return cls(target, **kw)
            st, val = self.raw(mk, op.get('timeout', 20))
            if st == 'hang':
                return {'hang': True}
            if st == 'exc':
                return {'exc': val}
            self.vars[op['var']] = val
            return {'ret': 'created', 'id': _rep(_guard(lambda: val.id))}
        if o == 'call':
            w = self.obj(op['var'])
            args = op.get('args', [])
            kwargs = op.get('kwargs', {})
            res = self.call(lambda: getattr(w, op['method'])(*args, **kwargs), op.get('timeout', 15))
            if op.get('digest') and 'ret' in res:
                res['ret'] = _digest(res['ret'])
            return res
        if o == 'get':
            w = self.obj(op['var'])
            if op.get('digest'):
                def dig():
                    v = getattr(w, op['attr'])
                    if isinstance(v, (list, tuple)) and len(v) == 2 and isinstance(v[1], str):
                        return {'len': 2, 'head': v[0], 'size': len(v[1])}
                    return {'other': repr(v)[:80]}
                return self.call(dig, op.get('timeout', 10))
            return self.call(lambda: getattr(w, op['attr']), op.get('timeout', 10))
        if o == 'set':
            w = self.obj(op['var'])
            return self.call(lambda: setattr(w, op['attr'], op['value']), 5)
        if o == 'kill':
            w = self.obj(op['var'])
            sig = getattr(signal, 'SIG' + op.get('sig', 'KILL'))
            try:
                os.kill(w.pid, sig)
                return {'ret': True}
            except ProcessLookupError:
                return {'ret': False}
        if o == 'child_dead':
            w = self.obj(op['var'])
            kind = op.get('kind')
            if not getattr(w, '_started', True):
                return {'ret': True}         # never run: there is no child
            dl = time.time() + op.get('within', 0)
            if kind in ('T', 'PT'):
                while w._child.is_alive() and time.time() < dl:
                    time.sleep(0.002)
                return {'ret': not w._child.is_alive()}
            while True:
                g = pid_gone(w.pid, exiting_counts=bool(op.get('exiting_counts')))
                if g or time.time() >= dl:
                    return {'ret': g}
                time.sleep(0.005)
        if o == 'sleep':
            time.sleep(op['s'])
            return {'ret': None}
        if o == 'wait_file':
            dl = time.time() + op.get('timeout', 10)
            while not os.path.exists(op['path']):
                if time.time() > dl:
                    return {'ret': False}
                time.sleep(0.002)
            return {'ret': True}
        if o == 'drain':
            w = self.obj(op['var'])
            out = []
            end = None
            if op.get('iter'):
                # the consumer is a for loop over results_iter(): an exception leaving the generator is the end it sees
                def it():
                    got = []
                    try:
                        for v in w.results_iter():
                            got.append(v)
                            if len(got) >= op.get('max', 20):
                                break
                    except BaseException as e:  # noqa
                        return got, 'RAISES:' + type(e).__name__
                    return got, 'empty'
                r = with_timeout(it, op.get('timeout', 3) * 3)
                if r == 'HANG':
                    return {'ret': [], 'end': 'hang'}
                if isinstance(r, str):
                    return {'ret': [], 'end': r}
                conv = (lambda x: _digest(_rep(x))) if op.get('digest') else _rep
                return {'ret': [conv(x) for x in r[0]], 'end': r[1]}
            for _ in range(op.get('max', 20)):
                r = with_timeout(lambda: w.next_result(), op.get('timeout', 3))
                if r == 'RAISES:Empty':
                    end = 'empty'
                    break
                if r == 'HANG':
                    end = 'hang'
                    break
                if isinstance(r, str) and r.startswith('RAISES:'):
                    end = r
                    break
                out.append(_digest(_rep(r)) if op.get('digest') else _rep(r))
            return {'ret': out, 'end': end}
        if o == 'stacks':
            import traceback
            out = {}
            for tid, fr in sys._current_frames().items():
                out[str(tid)] = [l.strip() for l in traceback.format_stack(fr)[-4:]]
            return {'ret': out}
        if o == 'reset_registry':
            from pyworkers.worker import Worker
            Worker._active_children = type(Worker._active_children)()
            return {'ret': True}
        if o == 'active_children':
            from pyworkers.worker import Worker

            def f():
                out = []
                for c in Worker.active_children():
                    names = [n for n, v in self.vars.items() if v is c]
                    out.append(names[0] if names else 'foreign:%s' % type(c).__name__)
                return sorted(out)
            return self.call(f, 20)
        if o == 'child_pid':
            w = self.obj(op['var'])
            return {'ret': getattr(getattr(w, '_child', None), 'pid', None)}
        if o.startswith('pool_'):
            return self.pool_op(op)
        if o == 'poll_wait':
            # the parent keeps asking until the worker is dead (each single call must come back)
            w = self.obj(op['var'])
            dl = time.time() + op.get('within', 10)
            n = 0
            while True:
                n += 1
                r = with_timeout(lambda: w.wait(op.get('step', 1.0)), op.get('step', 1.0) * 4 + 10)
                if r is True:
                    return {'ret': True, 'calls': n}
                if r == 'HANG':
                    return {'hang': True, 'calls': n}
                if isinstance(r, str):
                    return {'exc': r[7:], 'calls': n}
                if time.time() > dl:
                    return {'ret': False, 'calls': n}
                time.sleep(op.get('gap', 0.02))
        if o == 'server_stop':
            srv = self.d.server
            how = op['how']
            t0 = time.time()
            if how == 'terminate':
                r = self.call(lambda: srv.terminate(), 30)
            else:
                os.kill(srv._child.pid, signal.SIGTERM)
                r = {'ret': 'signalled'}
            # how long until the server process is gone
            dl = time.time() + op.get('within', 10)
            while time.time() < dl and not pid_gone(srv._child.pid):
                time.sleep(0.01)
            r['server_gone'] = pid_gone(srv._child.pid)
            r['gone_after'] = round(time.time() - t0, 3)
            self.d.server = None
            self.d.recorded = {}
            return r
        if o == 'tagged_wait_empty':
            # wait (bounded) until no process carrying this history's run id is left, apart from multiprocessing's resource trackers
            dl = time.time() + op.get('within', 10)
            left = []
            while True:
                left = [(p, c) for (p, c) in tagged_pids(self.run_id) if 'resource_tracker' not in c]
                if not left or time.time() > dl:
                    break
                time.sleep(0.05)
            return {'ret': left}
        if o == 'create_async':
            import threading
            box = {}
            inner = dict(op, op='create')

            def bg():
                box['r'] = self.step(inner)
            th = threading.Thread(target=bg, daemon=True)
            th.start()
            self.async_creates = getattr(self, 'async_creates', {})
            self.async_creates[op['var']] = (th, box)
            return {'ret': 'started'}
        if o == 'join_create':
            th, box = self.async_creates[op['var']]
            th.join(op.get('timeout', 20))
            if th.is_alive():
                return {'hang': True}
            return box.get('r', {'harness_error': 'no result'})
        if o == 'wait_reached':
            pth = os.path.join(self.land_dir, 'reached.%d' % op.get('n', 1))
            dl = time.time() + op.get('timeout', 10)
            while not os.path.exists(pth):
                if time.time() > dl:
                    return {'ret': False}
                time.sleep(0.001)
            return {'ret': True}
        if o == 'c11_fault':
            return self.c11_fault(op)
        if o == 'heal_server':
            # keep one sick server from poisoning the following histories
            from pyworkers.remote import RemoteWorker
            ok = False
            if self.d.server is not None and self.d.server._child.is_alive():
                r = with_timeout(lambda: self._probe_once(), 8)
                ok = r == [True, 49]
            if not ok:
                try:
                    if self.d.server is not None:
                        os.kill(self.d.server._child.pid, signal.SIGKILL)
                except Exception:  # noqa
                    pass
                self.d.server = None
                self.d.recorded = {}
                with_timeout(lambda: self.d.get_server().addr, 20)
            return {'ret': ok}
        if o == 'fake_server':
            return self.fake_server(op)
        if o == 'land_spec':
            import json as _json
            import tempfile
            self.land_dir = tempfile.mkdtemp(prefix='pwv_c20_', dir=self.d.base)
            spec = {'run_dir': self.land_dir, 'arm': op['arm'], 'files': op.get('files', ['pyworkers/']), 'events': op.get('events', []), 'inprocess': False}
            with open(self.d.spec_path + '.tmp', 'w') as f:
                _json.dump(spec, f)
            os.rename(self.d.spec_path + '.tmp', self.d.spec_path)
            os.environ['PWV_SPEC'] = self.d.spec_path
            return {'ret': True}
        if o == 'land_inproc':
            # arm the tracer inside this (parent) process: landing / preemption points of the parent's own threads
            import tempfile
            sys.path.insert(0, os.path.join(os.environ.get('PWV_HOME', '/verif'), 'inject'))
            import pwv_inject
            self.land_dir = tempfile.mkdtemp(prefix='pwv_inproc_', dir=self.d.base)
            spec = {'run_dir': self.land_dir, 'arm': op['arm'], 'files': op.get('files', ['pyworkers/']), 'events': op.get('events', []), 'inprocess': True}
            pwv_inject.configure(spec)
            self.inproc = True
            return {'ret': True}
        if o == 'land_inproc_report':
            import pwv_inject
            st = pwv_inject.state() or {}
            pwv_inject.configure(None)
            self.inproc = False
            return {'ret': {'sites': st.get('sites', []), 'landed': st.get('landed', [])}}
        if o == 'land_release':
            with open(os.path.join(self.land_dir, 'release.%d' % op.get('n', 1)), 'w') as f:
                f.write('go')
            return {'ret': True}
        if o == 'land_off':
            import json as _json
            with open(self.d.spec_path, 'w') as f:
                _json.dump({'off': True}, f)
            return {'ret': True}
        if o == 'land_report':
            sites = []
            landed = []
            try:
                for fn in sorted(os.listdir(self.land_dir)):
                    pth = os.path.join(self.land_dir, fn)
                    if fn.startswith('events.'):
                        with open(pth) as f:
                            for ln in f:
                                a = ln.split()
                                if len(a) >= 4:
                                    sites.append([a[1], int(a[2]), a[3]])
                    elif fn.startswith('reached.'):
                        import json as _json
                        with open(pth) as f:
                            landed.append(_json.load(f))
            except OSError:
                pass
            return {'ret': {'sites': sites, 'landed': landed}}
        if o == 'respawn_server':
            if self.d.server is not None:
                try:
                    self.d.server.terminate(timeout=1, force=True)
                except Exception:  # noqa
                    pass
                self.d.server = None
            # (the way the server is configured is part of the input: a server which stops on a None request, like the one
            # `python -m pyworkers.remote_server` runs)
            self.d.server_kwargs = {'close_on_none': True} if op.get('close_on_none') else {}
            self.d.recorded = {}
            os.environ['PWV_SPEC'] = self.d.spec_path
            st, val = self.raw(lambda: self.d.get_server().addr, 20)
            return {'ret': _rep(val)} if st == 'ret' else {st: val}
        if o == 'server_children':
            # live processes whose parent is the server (backends, context helpers); zombies do not count
            time.sleep(op.get('after', 0.3))
            srv = self.d.server
            out = []
            if srv is not None:
                spid = srv._child.pid
                for d in os.listdir('/proc'):
                    if d.isdigit():
                        try:
                            with open('/proc/%s/stat' % d) as f:
                                rest = f.read().rsplit(')', 1)[-1].split()
                            if int(rest[1]) == spid and rest[0] not in ('Z', 'X'):
                                with open('/proc/%s/cmdline' % d, 'rb') as f:
                                    cmd = f.read().replace(b'\0', b' ').decode('utf-8', 'replace')
                                if 'resource_tracker' not in cmd:
                                    out.append(int(d))
                        except (OSError, ValueError, IndexError):
                            pass
            return {'ret': out}
        if o == 'ctx_create':
            from pyworkers.remote_context import RemoteContext
            host = self.d.get_server().addr
            target = getattr(targets, op['target'])

            def mk():
                return RemoteContext(_ctxid(op['id']), host=host, target=target, args=op.get('args'), kwargs=op.get('kwargs'))
            st, val = self.raw(mk, op.get('timeout', 20))
            if st == 'hang':
                return {'hang': True}
            if st == 'exc':
                return {'exc': val}
            self.vars[op['var']] = val
            self.contexts = getattr(self, 'contexts', [])
            self.contexts.append(val)
            return {'ret': 'created'}
        if o == 'ctx_delete':
            c = self.obj(op['var'])
            return self.call(lambda: c.wait(), op.get('timeout', 30))
        if o == 'ctx_delete_raw':
            # a delete request naming a context the server does not know
            import socket as _s
            from pyworkers.remote import send_msg, recv_msg
            host = self.d.get_server().addr

            def f():
                with _s.socket(_s.AF_INET, _s.SOCK_STREAM) as sk:
                    sk.settimeout(10)
                    sk.connect(host)
                    send_msg(sk, (_ctxid(op['id']), False))
                    send_msg(sk, None)
                    return recv_msg(sk)
            return self.call(f, 15)
        if o == 'probe':
            from pyworkers.remote import RemoteWorker
            host = self.d.get_server().addr

            def f():
                w = RemoteWorker(targets.square, args=[op.get('x', 7)], host=host)
                ok = w.wait(10)
                return [ok, w.result]
            return self.call(f, 20)
        if o == 'server_alive':
            return {'ret': bool(self.d.server is not None and self.d.server._child.is_alive())}
        if o == 'restart':
            w = self.obj(op['var'])
            kw = dict(op.get('kwargs', {}))
            if kw.get('results_pipe') == '<new-pipe>':
                from pyworkers.utils import Pipe
                p = Pipe()
                self.oldpipes = getattr(self, 'oldpipes', {})
                self.oldpipes.setdefault(op['var'], []).append(self.pipes.get(op['var']))
                self.pipes[op['var']] = p
                kw['results_pipe'] = p
            self.old_pids = getattr(self, 'old_pids', {})
            self.old_pids[op['var']] = _guard(lambda: w.pid)
            return self.call(lambda: w.restart(**kw), op.get('timeout', 30))
        if o == 'drain_old_pipes':
            # a consumer of the previous incarnation's results pipe finally reads it (whatever was parked there gets going)
            n = 0
            for p in getattr(self, 'oldpipes', {}).get(op['var'], []):
                if p is None:
                    continue
                ep = p.parent_end
                dl = time.time() + op.get('timeout', 2)
                while time.time() < dl:
                    try:
                        if ep.poll(0.05):
                            ep.recv()
                            n += 1
                    except (EOFError, OSError):
                        break
            return {'ret': n}
        if o == 'fail_ctrl_send':
            # environment fault on the parent side of a remote worker: the k-th send on its control connection (counted from now)
            # finds the connection gone (peer hung up): the socket is shut down and the send fails with BrokenPipeError
            import socket as _so
            w = self.obj(op['var'])
            real = w._ctrl_sock
            kth = op['k']

            class Faulty:
                n = 0

                def sendall(fs, data, *a):
                    Faulty.n += 1
                    if Faulty.n == kth:
                        try:
                            real.shutdown(_so.SHUT_RDWR)
                        except OSError:
                            pass
                        raise BrokenPipeError(32, 'Broken pipe')
                    return real.sendall(data, *a)

                def __getattr__(fs, name):
                    return getattr(real, name)
            w._ctrl_sock = Faulty()
            return {'ret': True}
        if o == 'mux_drain':
            # a consumer multiplexing the (caller-supplied) results pipe the way the Pool does: mp.connection.wait + recv
            # until an end-of-results message or EOF arrives
            import multiprocessing.connection as _mpc
            ep = self.pipes[op['var']].parent_end
            got, end = [], None
            dl = time.time() + op.get('timeout', 8)
            while end is None:
                left = dl - time.time()
                if left <= 0:
                    end = 'hang'
                    break
                try:
                    ready = _mpc.wait([ep], min(left, 0.5))
                except (OSError, ValueError) as e:
                    end = 'wait-RAISES:' + type(e).__name__
                    break
                if not ready:
                    continue
                try:
                    msg = ep.recv()
                except (EOFError, OSError):
                    end = 'eof'
                    break
                except Exception as e:  # noqa
                    end = 'recv-RAISES:' + type(e).__name__
                    break
                if isinstance(msg, tuple) and len(msg) == 4 and msg[1] is False:
                    end = 'marker'
                    break
                got.append(_digest(_rep(msg[2])) if op.get('digest') else _rep(msg[2]))
            return {'ret': got, 'end': end}
        if o == 'old_child_dead':
            pid = getattr(self, 'old_pids', {}).get(op['var'])
            if op.get('kind') in ('T', 'PT') or not isinstance(pid, int):
                return {'ret': True}
            dl = time.time() + 2
            while time.time() < dl and not pid_gone(pid):
                time.sleep(0.01)
            return {'ret': pid_gone(pid), 'pid': pid}
        if o == 'read_file':
            try:
                with open(op['path']) as f:
                    return {'ret': f.read()}
            except FileNotFoundError:
                return {'ret': None}
        if o == 'poll_dead':
            w = self.obj(op['var'])
            dl = time.time() + op.get('timeout', 5)
            while time.time() < dl:
                a = _guard(w.is_alive)
                if a is False:
                    return {'ret': True}
                if isinstance(a, str):
                    return {'exc': a[7:]}
                time.sleep(0.002)
            return {'ret': False}
        if o == 'tagged':
            return {'ret': tagged_pids(self.run_id, exclude=op.get('exclude', ()))}
        raise ValueError('unknown op %r' % (o,))

    def pool_op(self, op):
        from pwv import targets
        from pyworkers.pool import Pool, PoolError
        from pyworkers.worker import WorkerType
        o = op['op']
        if o == 'pool_create':
            class FlakyPool(Pool):
                fail_next = False

                def handle_new_worker(self, worker):
                    if self.fail_next:
                        self.fail_next = False
                        raise RuntimeError('registration fails')
            kw = {'close_timeout': op.get('close_timeout', 0.3), 'retry': op.get('retry', True)}
            p = FlakyPool(getattr(targets, op.get('target', 'slow_echo')), kwargs={'delay': 0.01}, **kw)
            if 'force' in op:
                p.force = op['force']
            self.vars[op['var']] = p
            self.pool_workers = getattr(self, 'pool_workers', {})
            self.pool_workers[op['var']] = []
            return {'ret': 'created'}
        p = self.obj(op['pool'])
        ws = self.pool_workers[op['pool']]
        if o == 'pool_add':
            kind = op['kind']
            wt = {'T': WorkerType.THREAD, 'P': WorkerType.PROCESS, 'R': WorkerType.REMOTE}[kind]
            kw = {}
            if kind == 'R':
                kw['host'] = self.d.get_server().addr
            if op.get('fail'):
                p.fail_next = True
                before = set(pid for pid, _ in tagged_pids(self.run_id))
            st, val = self.raw(lambda: p.add_worker(wt, **kw), 20)
            if st == 'ret':
                ws.append((kind, val, val.pid))
                return {'ret': 'added'}
            if st == 'exc' and op.get('fail'):
                time.sleep(0.3)
                after = [(pid, c) for pid, c in tagged_pids(self.run_id) if pid not in before and 'resource_tracker' not in c]
                return {'exc': val, 'new_processes_left': after}
            return {st: val}
        if o == 'pool_run':
            def f():
                try:
                    cb = None
                    if op.get('close_in_callback'):
                        # the user's callback asks the pool to close in the middle of the run: refused (RuntimeError), handled there
                        def cb(worker, what, *a):
                            if what == 'finished':
                                try:
                                    p.close()
                                except RuntimeError:
                                    pass
                    r = p.run(iter(list(op['inputs'])), worker_extra_pending_inputs=op.get('extra', 0), worker_callback=cb)
                    return ['ret', sorted(r, key=repr) if r is not None else None]
                except PoolError as e:
                    return ['PoolError', sorted(e.partial_results or [], key=repr)]
            return self.call(f, op.get('timeout', 30))
        if o == 'pool_restart':
            r = self.call(lambda: p.restart_workers(timeout=1, **op.get('kwargs', {})), 40)
            if 'ret' in r:
                self.pool_workers[op['pool']] = [(k, w, w.pid) for (k, w, _) in ws]
            return r
        if o == 'pool_kill':
            k, w, pid = ws[op['i']]
            try:
                os.kill(w.pid, signal.SIGKILL)
            except ProcessLookupError:
                pass
            dl = time.time() + 3
            while time.time() < dl and not pid_gone(w.pid):
                time.sleep(0.01)
            time.sleep(0.1)
            return {'ret': True}
        if o == 'pool_stop':
            # the worker's process is stopped (SIGSTOP): it reacts neither to a graceful request nor to SIGTERM
            k, w, pid = ws[op['i']]
            try:
                os.kill(w.pid, signal.SIGSTOP)
            except ProcessLookupError:
                return {'ret': False}
            time.sleep(0.05)
            return {'ret': True}
        if o == 'pool_stuck':
            k, w, pid = ws[op['i']]
            return self.call(lambda: w.enqueue('STUBBORN'), 5)
        if o == 'pool_end':
            how = op['how']
            if how == 'exit':
                f = lambda: p.__exit__(None, None, None)  # noqa
            elif how == 'exc-exit':
                e = KeyError('body fails')
                f = lambda: p.__exit__(KeyError, e, None)  # noqa
            elif how == 'close':
                f = lambda: p.close()  # noqa
            else:
                f = lambda: p.terminate()  # noqa
            return self.call(f, op.get('timeout', 40))
        if o == 'pool_state':
            out = []
            for k, w, pid in ws:
                alive = _guard(w.is_alive)
                gone = True if k == 'T' else pid_gone(w.pid)
                # every pid this slot ever had
                out.append([k, alive, gone, pid_gone(pid) if k != 'T' else True])
            return {'ret': out}
        raise ValueError(o)

    def _probe_once(self):
        from pyworkers.remote import RemoteWorker
        from pwv import targets
        w = RemoteWorker(targets.square, args=[7], host=self.d.get_server().addr)
        return [w.wait(6), w.result]

    def c11_record(self, rtype):
        """Run one well-formed request of the given type against the current server and capture the client->server bytes of
        the data connection (the stream embeds the server address, so it is recorded per server instance)."""
        import socket as S
        from pwv import targets
        from pyworkers.remote import RemoteWorker
        from pyworkers.persistent_remote import PersistentRemoteWorker
        from pyworkers.remote_context import RemoteContext
        srv = self.d.get_server()
        key = (srv._child.pid, rtype)
        cache = getattr(self.d, 'recorded', None)
        if cache is None:
            cache = self.d.recorded = {}
        if key in cache:
            return cache[key]
        addr = tuple(srv.addr)
        cap = []
        real = S.socket.sendall

        def rec(sock, data, *a):
            try:
                peer = sock.getpeername()
            except OSError:
                peer = None
            cap.append((peer, bytes(data)))
            return real(sock, data, *a)
        if rtype in ('worker-in-ctx', 'ctx-delete'):
            # needs a registered context first (not recorded)
            self.d.c11_ctx = getattr(self.d, 'c11_ctx', 0) + 1
            cid = 'c11-ctx-%d-%d' % (os.getpid(), self.d.c11_ctx)
            ctx = RemoteContext(cid, host=addr, target=targets.slow_echo, kwargs={'delay': 0.05})
            if rtype == 'worker-in-ctx':
                self.d.c11_live_ctx = (srv._child.pid, cid, ctx)      # stays registered: the replayed requests address it
        S.socket.sendall = rec
        try:
            if rtype == 'worker':
                w = RemoteWorker(targets.square, args=[3], host=addr)
            elif rtype == 'pworker':
                w = PersistentRemoteWorker(targets.square, host=addr)
            elif rtype == 'worker-in-ctx':
                w = PersistentRemoteWorker(None, host=addr, context=cid)
            elif rtype == 'ctx-create':
                self.d.c11_ctx = getattr(self.d, 'c11_ctx', 0) + 1
                w = RemoteContext('c11-rec-%d-%d' % (os.getpid(), self.d.c11_ctx), host=addr, target=targets.ctx_a)
            elif rtype == 'ctx-delete':
                S.socket.sendall = rec
                w = None
                ctx.wait()
        finally:
            S.socket.sendall = real
        stream = b''.join(d for peer, d in cap if peer == addr)
        # tidy up what the recording created
        try:
            if rtype in ('worker', 'pworker', 'worker-in-ctx'):
                w.terminate(timeout=2)
            if rtype == 'ctx-create':
                w.wait()
        except Exception:  # noqa
            pass
        import struct
        hlen = 4 + struct.unpack('!I', stream[:4])[0]
        cache[key] = (stream, hlen)
        return cache[key]

    def c11_fault(self, op):
        import socket as S
        import struct
        from pyworkers.remote import recv_msg
        rtype = op['rtype']
        st, val = self.raw(lambda: self.c11_record(rtype), 30)
        if st != 'ret':
            return {'harness_error': 'recording failed: %s %s' % (st, val)}
        stream, hlen = val
        addr = tuple(self.d.get_server().addr)
        fault = op['fault']

        def end(sock, how):
            try:
                if how == 'RST':
                    sock.setsockopt(S.SOL_SOCKET, S.SO_LINGER, struct.pack('ii', 1, 0))
                sock.close()
            except OSError:
                pass

        def f():
            sk = S.socket(S.AF_INET, S.SOCK_STREAM)
            sk.settimeout(8)
            sk.connect(addr)
            kind = fault['kind']
            if kind == 'connect-close':
                end(sk, fault.get('ending', 'FIN'))
                return 'done'
            if kind == 'cut':
                cut = fault['cut'] if fault['cut'] >= 0 else len(stream) + 1 + fault['cut']
                cut = min(cut, len(stream))
                sk.sendall(stream[:cut])
                if fault.get('when') == 'at-once':
                    # the reset follows the last byte as closely as possible (once the peer's TCP has acknowledged everything,
                    # nothing is thrown away by the abortive close): the server meets a dead connection while it is still busy
                    # with the request
                    import fcntl
                    import termios
                    dl = time.time() + 1.0
                    while time.time() < dl:
                        if struct.unpack('i', fcntl.ioctl(sk.fileno(), termios.TIOCOUTQ, b'\0\0\0\0'))[0] == 0:
                            break
                else:
                    time.sleep(0.01)
                end(sk, fault['ending'])
                return 'done'
            if kind == 'garbage':
                body = bytes((i * 37 + 11) % 256 for i in range(len(stream) - hlen - 4))
                sk.sendall(stream[:hlen] + struct.pack('!I', len(body)) + body)
                time.sleep(0.05)
                end(sk, 'FIN')
                return 'done'
            # control-channel steps (worker requests)
            sk.sendall(stream)
            ctl_addr = recv_msg(sk)
            if kind == 'ctrl-never-connect':
                end(sk, fault.get('ending', 'FIN'))
                return 'done'
            cs = S.socket(S.AF_INET, S.SOCK_STREAM)
            cs.settimeout(8)
            cs.connect(tuple(ctl_addr))
            if kind == 'ctrl-connect-close':
                end(cs, fault.get('ending', 'FIN'))
                end(sk, fault.get('ending', 'FIN'))
                return 'done'
            info = recv_msg(cs)
            if kind == 'close-after-info':
                end(cs, fault.get('ending', 'FIN'))
                end(sk, fault.get('ending', 'FIN'))
            elif kind == 'close-only-data':
                end(sk, fault.get('ending', 'FIN'))
                time.sleep(0.3)
                end(cs, 'FIN')
            elif kind == 'close-only-ctrl':
                end(cs, fault.get('ending', 'FIN'))
                time.sleep(0.3)
                end(sk, 'FIN')
            return 'done'
        r = self.call(f, 15)
        r['stream_len'] = len(stream)
        r['header_len'] = hlen
        return r

    def fake_server(self, op):
        """A scripted peer playing the server side of the handshake: the control-address message on the data connection and
        the runtime-info message on the control connection, each cut after a given number of bytes with FIN or RST."""
        import socket as _s
        import struct
        import threading
        from pyworkers.remote import send_msg

        class Cap:
            def __init__(self):
                self.b = bytearray()

            def sendall(self, x):
                self.b += x
        lst = _s.socket(_s.AF_INET, _s.SOCK_STREAM)
        lst.bind(('127.0.0.1', 0))
        lst.listen()
        self.fake_addr = lst.getsockname()
        ctl = _s.socket(_s.AF_INET, _s.SOCK_STREAM)
        ctl.bind(('127.0.0.1', 0))
        ctl.listen()
        if op.get('ctrl') == 'closed-port':
            ctl_addr = ctl.getsockname()
            ctl.close()
        else:
            ctl_addr = ctl.getsockname()
        c1 = Cap()
        send_msg(c1, tuple(ctl_addr))
        addr_msg = bytes(c1.b)
        c2 = Cap()
        send_msg(c2, ('fakehost', 4242, 4242, 4242))
        info_msg = bytes(c2.b)
        phase, cut, ending = op['phase'], op['cut'], op['ending']

        def end(sock):
            try:
                if ending == 'RST':
                    sock.setsockopt(_s.SOL_SOCKET, _s.SO_LINGER, struct.pack('ii', 1, 0))
                sock.close()
            except OSError:
                pass

        def serve():
            try:
                lst.settimeout(10)
                cli, _ = lst.accept()
                if phase == 'addr':
                    cli.sendall(addr_msg[:cut])
                    time.sleep(0.02)
                    end(cli)
                    return
                cli.sendall(addr_msg)
                if op.get('ctrl') == 'closed-port':
                    time.sleep(0.5)
                    end(cli)
                    return
                ctl.settimeout(10)
                cc, _ = ctl.accept()
                cc.sendall(info_msg[:cut])
                time.sleep(0.02)
                end(cc)
                time.sleep(0.2)
                end(cli)
            except OSError:
                pass
            finally:
                for x in (lst, ctl):
                    try:
                        x.close()
                    except OSError:
                        pass
        threading.Thread(target=serve, daemon=True).start()
        return {'ret': {'addr_len': len(addr_msg), 'info_len': len(info_msg)}}

    def cleanup(self):
        left = []
        for c_, name_, orig_ in getattr(self, 'class_patches', []):
            setattr(c_, name_, orig_)
        if getattr(self, 'inproc', False):
            try:
                import pwv_inject
                pwv_inject.configure(None)
            except Exception:  # noqa
                pass
        for c in getattr(self, 'contexts', []):
            try:
                if c.is_alive():
                    with_timeout(lambda: c.wait(), 15)
            except Exception:  # noqa
                pass
        for name, w in list(self.vars.items()):
            try:
                if hasattr(w, 'pid') and hasattr(w, '_started') and w._started:
                    kind_thread = getattr(type(w), 'is_thread', False)
                    if not kind_thread and w.pid != os.getpid() and not pid_gone(w.pid):
                        left.append((name, w.pid))
                        try:
                            os.kill(w.pid, signal.SIGCONT)
                            os.kill(w.pid, signal.SIGKILL)
                        except ProcessLookupError:
                            pass
                    elif kind_thread and w._child.is_alive():
                        _guard(lambda: w.terminate(0.5))
            except Exception:  # noqa
                pass
        return left
