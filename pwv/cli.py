"""CLI: python -m pwv.cli <ID> [--tier quick|thorough] [--replay file]"""
import os
import sys
import json
import argparse
import importlib


def main(argv=None):
    ap = argparse.ArgumentParser()
    ap.add_argument('prop')
    ap.add_argument('--tier', default=os.environ.get('VERIF_TIER') or 'quick', choices=['quick', 'thorough'])
    ap.add_argument('--replay', default=None)
    ap.add_argument('--only', default=None, help='restrict to a sub-engine / scenario (debugging)')
    args = ap.parse_args(argv)
    try:
        seed = int(os.environ.get('VERIF_SEED', '0') or 0)
    except ValueError:
        seed = 0
    prop = args.prop.upper()
    mod = importlib.import_module('pwv.props.%s' % prop.lower())
    from .core import Ctx
    ctx = Ctx(prop, mod.LEVEL, tier=args.tier, seed=seed, replay_mode=bool(args.replay))
    ctx.only = args.only
    # overall watchdog: a check that hangs is a broken check, never a silent pass
    import threading
    budget = float(os.environ.get('PWV_BUDGET_S') or (1500 if args.tier == 'quick' else 6 * 3600))

    def _timeout():
        print('[%s] CHECK-BROKEN: wall-clock budget of %ds exhausted (harness hang)' % (prop, budget), flush=True)
        os._exit(3)
    wd = threading.Timer(budget, _timeout)
    wd.daemon = True
    wd.start()
    crashed = None
    try:
        if args.replay:
            with open(args.replay) as f:
                rec = json.load(f)
            mod.replay(ctx, rec)
        else:
            mod.run(ctx)
    except BaseException as e:  # noqa
        import traceback
        crashed = traceback.format_exc()
        ctx.selftest_fail('the check itself raised %s: %s' % (type(e).__name__, str(e)[:200]))
    rc = ctx.finish()
    if crashed:
        print(crashed[-1500:])
    sys.stdout.flush()
    sys.stderr.flush()
    os._exit(rc)


if __name__ == '__main__':
    main()
