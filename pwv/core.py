"""Common machinery: check context, evidence, known findings, replay artefacts."""
import os
import sys
import json
import time
import hashlib
import fnmatch

HOME = os.environ.get('PWV_HOME') or os.path.dirname(os.path.dirname(os.path.abspath(__file__)))
REPO = os.environ.get('PWV_REPO', '/repo')

LEVELS = ('exploration', 'fault_enumeration', 'model_checking')


def jsonable(x, depth=0):
    """Best-effort conversion of an arbitrary observation into JSON."""
    if depth > 8:
        return repr(x)
    if x is None or isinstance(x, (bool, int, float, str)):
        return x
    if isinstance(x, bytes):
        if len(x) > 48:
            return 'bytes[%d]:%s..' % (len(x), x[:16].hex())
        return 'bytes:' + x.hex()
    if isinstance(x, (list, tuple)):
        return [jsonable(i, depth + 1) for i in x]
    if isinstance(x, (set, frozenset)):
        return sorted((jsonable(i, depth + 1) for i in x), key=repr)
    if isinstance(x, dict):
        return {str(k): jsonable(v, depth + 1) for k, v in x.items()}
    if isinstance(x, BaseException):
        return {'exc': type(x).__name__, 'args': jsonable(x.args, depth + 1)}
    return repr(x)


class Findings:
    """known_findings.json: {findings:[{property, signature(glob), what}], fixed:[str]}.
    Never written at run time."""

    def __init__(self, path=None):
        path = path or os.path.join(HOME, 'known_findings.json')
        self.entries = []
        self.fixed = []
        if os.path.exists(path):
            with open(path) as f:
                d = json.load(f)
            self.entries = d.get('findings', [])
            self.fixed = d.get('fixed', [])

    def match(self, prop, signature):
        for e in self.entries:
            if e['property'] != prop:
                continue
            pats = e['signature'] if isinstance(e['signature'], list) else [e['signature']]
            for p in pats:
                if signature == p or fnmatch.fnmatchcase(signature, p):
                    return e
        return None


class Ctx:
    """One run of one property check."""

    def __init__(self, prop, level, tier='quick', seed=0, replay_mode=False):
        assert level in LEVELS
        self.prop = prop
        self.level = level
        self.tier = tier
        self.quick = tier == 'quick'
        self.seed = seed
        self.t0 = time.time()
        self.findings = Findings()
        self.evaluations = 0
        self.nontrivial = set()
        self.distinct_extra = 0     # distinct cases counted inside parallel shards (distinct by construction of the enumeration)
        self.outcomes = {}
        self.samples = []
        self.max_samples = 6
        self.rule = ''
        self.assumptions = []
        self.extra = {}
        self.caps = []
        self.exhaustive = True
        self.violations = []      # (signature, replay dict)
        self.known_hits = {}      # finding 'what' -> count
        self.viol_by_sig = {}
        self.replay_mode = replay_mode
        self.states = 0
        self.transitions = 0
        self.traces_validated = 0
        self.broken = []          # harness self-test failures (check is broken, not a violation)

    # ---- counting -------------------------------------------------------
    def count(self, n=1):
        self.evaluations += n

    def distinct(self, key):
        self.nontrivial.add(key if isinstance(key, (str, int, tuple)) else repr(key))

    def outcome(self, key):
        key = key if isinstance(key, str) else repr(key)
        self.outcomes[key] = self.outcomes.get(key, 0) + 1

    def sample(self, case):
        if len(self.samples) < self.max_samples:
            self.samples.append(jsonable(case))

    def cap(self, what):
        self.caps.append(what)
        self.exhaustive = False

    def selftest_fail(self, what):
        self.broken.append(what)

    # ---- violations -----------------------------------------------------
    def violation(self, signature, case, observed, expected, engine=None):
        """Record a violation of the property. `signature` is the class of the failing case; a
        signature listed in known_findings.json is a KNOWN-FINDING, anything else a VIOLATION."""
        e = self.findings.match(self.prop, signature)
        if e is not None:
            w = e['what']
            if w not in self.known_hits:
                self.known_hits[w] = {'count': 0, 'signature': signature, 'sample': jsonable(case)}
            self.known_hits[w]['count'] += 1
            return False
        rec = {'property': self.prop, 'engine': engine, 'tier': self.tier, 'seed': self.seed,
               'signature': signature, 'case': jsonable(case), 'observed': jsonable(observed),
               'expected': jsonable(expected)}
        n = self.viol_by_sig.get(signature, 0)
        self.viol_by_sig[signature] = n + 1
        if n < 3:
            self.violations.append(rec)
        return True

    def write_replay(self, rec):
        d = os.path.join(os.environ.get('PWV_REPLAY_DIR') or os.path.join(HOME, 'replay'), self.prop)
        os.makedirs(d, exist_ok=True)
        h = hashlib.sha1(json.dumps([rec['signature'], rec['case']], sort_keys=True).encode()).hexdigest()[:12]
        p = os.path.join(d, h + '.json')
        with open(p, 'w') as f:
            json.dump(rec, f, indent=1, sort_keys=True)
        return p

    # ---- finishing ------------------------------------------------------
    def finish(self):
        wall = time.time() - self.t0
        nviol = sum(self.viol_by_sig.values())
        cov = {
            'evaluations': int(self.evaluations),
            'distinct_nontrivial': len(self.nontrivial) + self.distinct_extra,
            'rule': self.rule,
            'samples': self.samples or [{'note': 'no case recorded'}],
            'exhaustive': bool(self.exhaustive),
            'caps_hit': self.caps,
            'distinct_outcomes': len(self.outcomes),
            'outcomes': dict(sorted(self.outcomes.items(), key=lambda kv: -kv[1])[:40]),
            'known_findings_hit': self.known_hits,
            'violation_signatures': dict(self.viol_by_sig),
        }
        if self.level == 'model_checking':
            cov['states'] = int(self.states)
            cov['transitions'] = int(self.transitions)
            cov['traces_validated_against_impl'] = int(self.traces_validated)
        cov.update(self.extra)
        ev = {
            'property_id': self.prop, 'tier': self.tier, 'seed': int(self.seed), 'level': self.level,
            'coverage': cov, 'assumptions': self.assumptions, 'wall_s': round(wall, 3),
            'violations': int(nviol),
        }
        if not self.replay_mode:
            d = os.environ.get('PWV_EVIDENCE_DIR') or os.path.join(HOME, 'evidence')
            os.makedirs(d, exist_ok=True)
            tmp = os.path.join(d, '.%s.json.tmp%d' % (self.prop, os.getpid()))
            with open(tmp, 'w') as f:
                json.dump(ev, f, indent=1, sort_keys=True)
            os.replace(tmp, os.path.join(d, self.prop + '.json'))
        print('[%s] tier=%s evaluations=%d distinct=%d outcomes=%d states=%d transitions=%d exhaustive=%s wall=%.1fs' % (
            self.prop, self.tier, self.evaluations, len(self.nontrivial) + self.distinct_extra, len(self.outcomes), self.states,
            self.transitions, self.exhaustive, wall))
        for c in self.caps:
            print('[%s] CAP: %s' % (self.prop, c))
        for w, h in self.known_hits.items():
            print('KNOWN-FINDING: property=%s %s (cases=%d)' % (self.prop, w, h['count']))
        rc = 0
        seen = set()
        for rec in self.violations:
            if rec['signature'] in seen:
                continue
            seen.add(rec['signature'])
            p = self.write_replay(rec)
            print('[%s] violation signature=%s observed=%s' % (self.prop, rec['signature'],
                                                           json.dumps(rec['observed'])[:300]))
            print('VIOLATION property=%s replay=%s' % (self.prop, p))
            rc = 1
        if self.broken:
            for b in self.broken:
                print('[%s] CHECK-BROKEN: %s' % (self.prop, b))
            rc = rc or 2
        sys.stdout.flush()
        return rc
