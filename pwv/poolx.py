"""POOLX: explicit-state exploration of the real Pool.run closed with scripted workers.

The environment (worker progress, deaths, readiness order) is consulted only at the points where the pool can observe
it: every connection.wait call (one macro step: each live worker answers 0..all queued inputs and then possibly dies)
and every enqueue (the addressed worker may die just before it; an enqueue on a dead, not yet buried worker either
raises WorkerClosedError or is accepted and dropped).  Executions are replayed from scratch on a fresh real Pool for
every choice prefix; states are hashed at connection.wait, where the continuation is a function of data only.
"""
import itertools
import types

VALUE = lambda x: x * 10   # what the (virtual) target computes  # noqa


class Abort(BaseException):
    """Stops an execution (state already seen / budget). BaseException: Pool's bare except must not be reached with it."""


class Deadlock(BaseException):
    pass


class Livelock(BaseException):
    pass


class FakeConn:
    def __init__(self):
        self.items = []      # messages; 'EOF' as last element once the writer is gone
        self.closed = False

    def ready(self):
        return bool(self.items) and not self.closed

    def recv(self):
        if self.closed:
            raise OSError('handle is closed')
        if not self.items:
            raise Deadlock('recv on an empty connection would block')
        if self.items[0] == 'EOF':
            raise EOFError()
        if self.items[0] == 'TORN':
            # the writer was killed in the middle of a message (multiprocessing.Connection._recv)
            self.items.pop(0)
            raise OSError('got end of file during message')
        return self.items.pop(0)

    def close(self):
        self.closed = True

    def fileno(self):
        return -1


class FakePipe:
    def __init__(self):
        self.parent_end = FakeConn()
        self.child_end = self.parent_end


class ScriptedWorker:
    """Behaviour read off PersistentThread/Process/RemoteWorker: result message (counter, True, value, id); end marker
    (counter, False, None, id) then EOF; bare EOF when killed."""

    def __init__(self, box, idx, results_pipe):
        self.box = box
        self.idx = idx
        self._id = ('h', 1000 + idx, 1000 + idx)
        self.conn = results_pipe.parent_end
        self.queue = []
        self.counter = 0
        self.alive = True
        self.accepted = []     # ground truth: inputs accepted (or dropped) by enqueue
        self.answered = []
        self.lost = []         # inputs this worker took to the grave (incl. dropped and refused-at-death)
        self.name = 'w%d' % idx
        self.userid = idx

    def __repr__(self):
        return 'W%d' % self.idx

    @property
    def id(self):
        self.box.tick()
        return self._id

    def is_alive(self):
        self.box.tick()
        return self.alive

    @property
    def has_error(self):
        return None if self.alive else True

    error = None

    def die(self, how):
        assert self.alive
        self.alive = False
        self.death_how = how
        self.lost.extend(self.queue)
        self.queue = []
        if how == 'marker':
            self.conn.items.append((self.counter, False, None, self._id))
        if how == 'torn':
            self.conn.items.append('TORN')
        self.conn.items.append('EOF')
        self.box.deaths_left -= 1
        self.box.log.append(('die', self.idx, how))

    def answer(self):
        x = self.queue.pop(0)
        if x in self.box.poison:
            # the target raises on this input: graceful death with an end marker (does not use the death budget)
            self.box.deaths_left += 1
            self.lost.append(x)
            self.die('marker')
            return False
        self.counter += 1
        self.answered.append(x)
        self.conn.items.append((self.counter, True, VALUE(x), self._id))
        return True

    def enqueue(self, *inp):
        box = self.box
        box.tick()
        x = inp[0] if len(inp) == 1 else inp
        box.handed.append((self.idx, x))
        if self.alive and box.deaths_left > 0 and self.idx not in box.immortal:
            if box.choose(2, ('pre-enqueue-death', self.idx)) == 1:
                kinds = ('marker', 'eof', 'torn') if box.cfg.get('torn') else ('marker', 'eof')
                how = kinds[box.choose(len(kinds), ('pre-enqueue-death-kind', self.idx))]
                self.die(how)
        if not self.alive:
            self.lost.append(x)
            # accept-and-drop is only realistic in the dying window of a graceful death (end marker sent, child not
            # yet gone); a killed child is dead for is_alive() at the instant its pipe reports EOF
            if self.death_how != 'marker' or box.choose(2, ('dead-enqueue', self.idx)) == 0:
                from pyworkers.persistent import WorkerClosedError
                raise WorkerClosedError(self)
            box.log.append(('dropped', self.idx, x))
            return              # accepted and dropped (dying window / remote socket already closed)
        self.queue.append(x)
        self.accepted.append(x)

    # used by Pool._close only (not explored here)
    def close(self):
        pass

    def wait(self, timeout=None):
        return not self.alive

    def terminate(self, *a, **k):
        self.alive = False
        return True


class Box:
    """One exploration box = configuration + per-execution state."""

    def __init__(self, cfg):
        self.cfg = cfg
        self.poison = frozenset(cfg.get('poison', ()))
        self.immortal = frozenset(cfg.get('immortal', ()))

    # ---- per execution ----
    def reset(self, prefix, seen):
        self.prefix = prefix
        self.pos = 0
        self.trace = []          # (nopts, chosen, label)
        self.seen = seen
        self.deaths_left = self.cfg['deaths']
        self.ticks = 0
        self.log = []
        self.handed = []
        self.workers = []
        self.consumed = 0
        self.finished_cb = []
        self.new_states = []
        self.wait_states = 0

    def tick(self):
        self.ticks += 1
        if self.ticks > self.cfg.get('livelock_ticks', 2000):
            raise Livelock('more than %d pool->environment interactions without reaching connection.wait' % self.cfg.get('livelock_ticks', 2000))

    def choose(self, n, label):
        if n <= 1:
            return 0
        if self.pos < len(self.prefix):
            c = self.prefix[self.pos]
            if c >= n:
                raise RuntimeError('replay divergence at %d: choice %d of %d (%r)' % (self.pos, c, n, label))
        else:
            c = 0
        self.pos += 1
        self.trace.append((n, c, label))
        return c


def macro_options(box):
    """All (answers, death) vectors for the live workers such that at least one connection is ready afterwards."""
    per = []
    live = [w for w in box.workers if w.alive]
    for w in live:
        opts = []
        # number of answers: stop at a poison input (answering it kills the worker)
        maxk = 0
        for x in w.queue:
            maxk += 1
            if x in box.poison:
                break
        for k in range(maxk + 1):
            hits_poison = k > 0 and w.queue[k - 1] in box.poison
            opts.append((k, None))
            if not hits_poison and box.deaths_left > 0 and w.idx not in box.immortal:
                opts.append((k, 'marker'))
                opts.append((k, 'eof'))
                if box.cfg.get('torn'):
                    opts.append((k, 'torn'))      # killed in the middle of writing a (big) result
        per.append(opts)
    out = []
    already = any(cn.ready() for cn in box.pool_conns())
    for combo in itertools.product(*per):
        ndeaths = sum(1 for (_, d) in combo if d)
        if ndeaths > box.deaths_left:
            continue
        if not already and all(k == 0 and d is None for (k, d) in combo):
            continue
        out.append(combo)
    return live, out


def canon_state(box, pool, ret):
    ws = tuple((w.alive, tuple(w.queue), w.counter, tuple(_msgkey(m) for m in w.conn.items), w.conn.closed,
                tuple(sorted(w.lost))) for w in box.workers)
    ids = {w._id: w.idx for w in box.workers}
    ppw = tuple(sorted((ids[k], tuple(v)) for k, v in pool._pending_per_worker.items()))
    return (pool._pending, ppw, tuple(pool._retries), tuple(sorted(ids[c] for c in pool._closed)), pool._depleted,
            tuple(sorted(ret, key=_okey)), tuple(sorted(box.finished_cb, key=_okey)), box.consumed, ws, box.deaths_left,
            tuple(ids[k] for k in pool._queues.keys()), tuple(sorted(getattr(box, 'efn_state', ()))))


def _okey(v):
    """Total order also over foreign values (None, tuples) a broken pool might hand back."""
    return (0, v) if isinstance(v, int) and not isinstance(v, bool) else (1, repr(v))


def _msgkey(m):
    if m in ('EOF', 'TORN'):
        return m
    return (m[0], m[1], m[2])


class Outcome:
    def __init__(self, kind, **kw):
        self.kind = kind
        self.__dict__.update(kw)

    def key(self):
        d = dict(self.__dict__)
        return repr(sorted(d.items()))


def run_once(box, prefix, seen, stats, perms=False):
    """One execution of the real Pool.run under the choice prefix. Returns (outcome|None if pruned, trace)."""
    import pyworkers.pool as P
    cfg = box.cfg
    box.reset(prefix, seen)
    holder = {}

    def wait(conns, timeout=None):
        pool = holder['pool']
        conns = list(conns)
        box.ticks = 0
        # hash the state (only beyond the replayed prefix: inside it the state is known to have been expanded)
        st = canon_state(box, pool, holder['ret_view']())
        if box.pos >= len(box.prefix):
            if st in seen:
                raise Abort('seen')
            seen.add(st)
            stats['states'] += 1
        box.pool_conns = lambda: conns
        live, opts = macro_options(box)
        if not opts:
            raise Deadlock('connection.wait would block for ever: no connection is ready and no live worker holds an input or can die (pending=%d)' % pool._pending)
        idx = box.pos
        c = box.choose(len(opts), 'macro')
        if idx >= len(box.prefix) - 1:
            stats['transitions'] += 1
        combo = opts[c]
        for w, (k, d) in zip(live, combo):
            for _ in range(k):
                if not w.answer():
                    break
            if d and w.alive:
                w.die(d)
        box.log.append(('step', tuple((w.idx, k, d) for w, (k, d) in zip(live, combo))))
        ready = [cn for cn in conns if cn.ready()]
        assert ready
        if perms and len(ready) > 1:
            orders = list(itertools.permutations(range(len(ready))))
            o = box.choose(len(orders), 'order')
            ready = [ready[i] for i in orders[o]]
        return ready

    shim_mp = types.SimpleNamespace(connection=types.SimpleNamespace(wait=wait))
    shim_time = types.SimpleNamespace(sleep=lambda s: box.tick(), time=lambda: 0.0)
    saved = (P.mp, P.time, P.Pipe)
    P.mp, P.time, P.Pipe = shim_mp, shim_time, FakePipe
    try:
        pool = P.Pool(None, retry=cfg['retry'])
        holder['pool'] = pool

        def factory(**kw):
            w = ScriptedWorker(box, len(box.workers), kw['results_pipe'])
            box.workers.append(w)
            return w
        for _ in range(cfg['workers']):
            pool.add_worker(factory)
        inputs = list(cfg['inputs'])

        def gen():
            for x in inputs:
                box.consumed += 1
                yield x
        if cfg.get('source') == 'callable':
            it = gen()

            def src(worker):
                box.tick()
                return next(it)
            sources = [src]
        else:
            sources = [gen()]
        kwargs = {'worker_extra_pending_inputs': cfg['extra'], 'return_results': cfg.get('return_results', True)}
        efn = cfg.get('enqueue_fn')
        if efn:
            kwargs['enqueue_fn'] = make_enqueue_fn(box, efn)
        ret_live = []
        if not cfg.get('return_results', True):
            def cb(worker, event, *a):
                if event == 'finished':
                    box.finished_cb.append(a[0])
            kwargs['worker_callback'] = cb
        # the pool's own result list is a local of run(); recover it through the callback-free path: we wrap list
        holder['ret_view'] = lambda: tuple(_peek_ret(pool))
        out = None
        try:
            r = pool.run(*sources, **kwargs)
            out = Outcome('return', results=tuple(sorted(r, key=_okey)) if r is not None else None)
        except P.PoolError as e:
            out = Outcome('PoolError', partial=tuple(sorted(e.partial_results, key=_okey)) if e.partial_results is not None else None)
        except Abort:
            return None, box.trace
        except Deadlock as e:
            out = Outcome('deadlock', msg=str(e)[:60])
        except Livelock as e:
            out = Outcome('livelock', msg='no progress')
        except RuntimeError as e:
            if 'replay divergence' in str(e):
                raise
            out = Outcome('internal-error', type=type(e).__name__, msg=str(e)[:80])
        except Exception as e:  # noqa
            out = Outcome('internal-error', type=type(e).__name__, msg=str(e)[:80])
        out.pool = pool
        return out, box.trace
    finally:
        P.mp, P.time, P.Pipe = saved


def _peek_ret(pool):
    """The result list 'ret' is a local variable of Pool.run; find it in the running frame."""
    import sys
    f = sys._getframe(2)
    while f is not None:
        if f.f_code.co_name == 'run' and f.f_locals.get('self') is pool and 'ret' in f.f_locals:
            return list(f.f_locals['ret'])
        f = f.f_back
    return []


def make_enqueue_fn(box, kind):
    """enqueue_fn variants. Refusing predicates leave every input acceptable to some worker."""
    def always(worker, *inp):
        box.tick()
        worker.enqueue(*inp)
        return True

    def w0_refuses_odd(worker, *inp):
        box.tick()
        if worker.idx == 0 and inp[0] % 2 == 1:
            return False
        worker.enqueue(*inp)
        return True

    def w0_refuses_all(worker, *inp):
        box.tick()
        if worker.idx == 0:
            return False
        worker.enqueue(*inp)
        return True

    def parity(worker, *inp):
        # worker i accepts inputs with x % nworkers == i or any input >= 100 ... every input has exactly one taker
        box.tick()
        if inp[0] % 2 != worker.idx % 2:
            return False
        worker.enqueue(*inp)
        return True
    raised = set()
    box.efn_state = raised          # part of the explored state

    def raises_once(worker, *inp):
        # a transient failure of the user's function: it raises the first time it sees input 2 (the worker is alive and well)
        box.tick()
        if inp[0] == 2 and 2 not in raised:
            raised.add(2)
            raise ConnectionError('transient failure of the user enqueue function')
        worker.enqueue(*inp)
        return True
    return {'always': always, 'w0odd': w0_refuses_odd, 'w0all': w0_refuses_all, 'parity': parity, 'raise-once': raises_once}[kind]


def judge(box, out):
    """Returns a list of (property, signature, expected) for every property clause this execution violates."""
    cfg = box.cfg
    inputs = list(cfg['inputs'])
    genuine = sorted(VALUE(x) for x in inputs)
    v = []
    tag = 'retry-%s' % ('on' if cfg['retry'] else 'off')
    if cfg.get('enqueue_fn') and cfg['enqueue_fn'] not in ('always', 'raise-once'):
        tag += '/refusing-enqueue_fn'
    if cfg.get('enqueue_fn') == 'raise-once':
        tag += '/enqueue_fn-raising-once'
    results = None
    if out.kind == 'return':
        results = list(out.results) if out.results is not None else sorted(box.finished_cb, key=_okey)
    elif out.kind == 'PoolError':
        results = list(out.partial) if out.partial is not None else sorted(box.finished_cb, key=_okey)
    if out.kind == 'internal-error':
        v.append(('C07', 'POOLX/internal-error/%s/%s' % (out.type, tag), 'return or PoolError'))
        if out.type == 'IndexError':
            pass
    elif out.kind == 'deadlock':
        v.append(('C07', 'POOLX/deadlock/%s' % tag, 'Pool.run terminates when every worker answered or died'))
    elif out.kind == 'livelock':
        v.append(('C07', 'POOLX/livelock/%s' % tag, 'Pool.run terminates'))
    if results is not None:
        # soundness of whatever was returned / reported
        rem = list(genuine)
        bogus = []
        for r in results:
            if r in rem:
                rem.remove(r)
            else:
                bogus.append(r)
        if bogus:
            dup = [b for b in bogus if b in genuine]
            sig = 'POOLX/%s/%s/%s' % ('duplicate-result' if dup else 'foreign-result', out.kind, tag)
            v.append(('C07' if (cfg['retry'] and out.kind == 'return') else 'C08', sig, 'at most one genuine result per input'))
        if out.kind == 'return' and cfg['retry']:
            if rem:
                v.append(('C07', 'POOLX/missing-result/return/%s' % tag, 'exactly one result per input'))
        if out.kind == 'return' and not cfg['retry'] and rem:
            # every missing input must have gone down with a dead worker
            lost = []
            for w in box.workers:
                if not w.alive:
                    lost.extend(w.lost)
            missing_inputs = [r // 10 for r in rem]
            unexplained = [x for x in missing_inputs if x not in lost]
            if unexplained:
                v.append(('C08', 'POOLX/missing-without-death/%s' % tag, 'missing inputs were handed to a worker that died'))
    if out.kind == 'PoolError':
        alive = [w.idx for w in box.workers if w.alive]
        if alive:
            v.append(('C08', 'POOLX/PoolError-with-live-worker/%s' % tag, 'PoolError only when every worker is dead or closed'))
        elif results is not None and cfg.get('return_results', True) and not cfg.get('poison') and sorted(results, key=repr) == sorted(genuine, key=repr) and inputs:
            # every input has its result: the workers died after the input was finished, not before
            v.append(('C08', 'POOLX/PoolError-although-every-input-has-its-result/%s' % tag, 'PoolError only if the workers died before the input was finished'))
    if out.kind == 'return' and out.results is None and cfg.get('return_results', True) and cfg['workers'] > 0:
        v.append(('C07', 'POOLX/returned-None/%s' % tag, 'a list'))
    return v


def explore(cfg, on_exec, perms=False, max_execs=None):
    """DFS over choice prefixes with state dedup at connection.wait. on_exec(box, out, choices) for complete runs."""
    box = Box(cfg)
    seen = set()
    stats = {'states': 0, 'transitions': 0, 'executions': 0, 'pruned': 0, 'capped': False}
    stack = [[]]
    while stack:
        prefix = stack.pop()
        out, trace = run_once(box, prefix, seen, stats, perms=perms)
        stats['executions'] += 1
        choices = [c for (_, c, _) in trace]
        if out is None:
            stats['pruned'] += 1
        else:
            on_exec(box, out, choices)
        # expand alternatives beyond the prefix
        for i in range(len(trace) - 1, len(prefix) - 1, -1):
            n, c, label = trace[i]
            for alt in range(n - 1, c, -1):
                stack.append(choices[:i] + [alt])
        if max_execs and stats['executions'] >= max_execs:
            stats['capped'] = True
            break
    return stats


def replay_choices(cfg, choices, perms=False):
    box = Box(cfg)
    stats = {'states': 0, 'transitions': 0}
    out, trace = run_once(box, list(choices), set(), stats, perms=perms)
    return box, out, trace
