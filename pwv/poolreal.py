"""Conformance: replay POOLX traces against a real Pool of real persistent workers, in lockstep with the scripted model.

Every environment choice of the trace is applied to a shadow scripted worker *and* realised on the real worker (gates
opened, terminate() for a graceful death, SIGKILL for a bare EOF); after every step the messages visible on the real
result pipes must equal the shadow's, and at the end the real outcome must equal the model's outcome.
"""
import os
import sys
import time
import json
import shutil
import signal
import tempfile
import types
import multiprocessing

from . import poolx
from .poolx import Box, ScriptedWorker, FakePipe, macro_options, Outcome


class NotApplicable(Exception):
    pass


_SERVER = [None]


def _server():
    """The remote server of the current replay (started on demand, stopped by replay_one when the replay is over: a live
    non-daemonic child would keep the replaying process from exiting)."""
    if _SERVER[0] is None or not _SERVER[0].is_alive():
        from pyworkers.remote_server import spawn_server
        _SERVER[0] = spawn_server(('127.0.0.1', 0))
    return _SERVER[0]


def _stop_server():
    if _SERVER[0] is not None:
        try:
            _SERVER[0].terminate(timeout=1, force=True)
            if _SERVER[0]._child.is_alive():
                os.kill(_SERVER[0]._child.pid, signal.SIGKILL)
        except Exception:  # noqa
            pass
        _SERVER[0] = None


class Mismatch(Exception):
    pass


class ProxyEnd:
    """Read-ahead wrapper around the real parent end of a results pipe."""

    def __init__(self, real):
        self.real = real
        self.buf = []
        self.eof = False
        self.closed = False

    def fill(self):
        if self.eof or self.closed:
            return
        try:
            while self.real.poll(0):
                try:
                    self.buf.append(self.real.recv())
                except EOFError:
                    self.eof = True
                    break
        except (OSError, BrokenPipeError, EOFError):
            self.eof = True

    def ready(self):
        return (bool(self.buf) or self.eof) and not self.closed

    shadow = None

    def recv(self):
        if self.buf:
            m = self.buf.pop(0)
            sm = self.shadow.recv()
            if (m[0], m[1], m[2]) != (sm[0], sm[1], sm[2]):
                raise Mismatch('message read by the pool: real %r, model %r' % (m, sm))
            return m
        if self.eof:
            try:
                self.shadow.recv()
            except EOFError:
                raise EOFError()
            raise Mismatch('real pipe at EOF, model pipe is not')
        raise Mismatch('pool reads from a connection the model says is empty')

    def close(self):
        self.closed = True
        if self.shadow is not None:
            self.shadow.close()
        try:
            self.real.close()
        except OSError:
            pass

    def fileno(self):
        return self.real.fileno()

    def __getattr__(self, name):
        if name in ('real', 'buf', 'eof', 'closed', 'shadow') or name.startswith('__'):
            raise AttributeError(name)
        return getattr(self.real, name)


class ProxyPipe:
    def __init__(self):
        from pyworkers.utils import Pipe
        self._pipe = Pipe()
        self._proxy = ProxyEnd(self._pipe.parent_end)

    @property
    def parent_end(self):
        return self._proxy

    @property
    def child_end(self):
        return self._pipe.child_end


def wait_until(cond, timeout, what):
    t0 = time.time()
    while not cond():
        if time.time() - t0 > timeout:
            raise Mismatch('timeout waiting for: ' + what)
        time.sleep(0.001)


class Adapter:
    """What the real Pool sees: forwards to the real worker, keeps the shadow in lockstep."""

    def __init__(self, rep, real, shadow, proxy):
        self.rep, self.real, self.sw, self.proxy = rep, real, shadow, proxy
        shadow.on_die = self.realise_death

    @property
    def id(self):
        return self.real.id

    def __repr__(self):
        return 'R%d' % self.sw.idx

    def is_alive(self):
        if self.rep.abort:
            raise self.rep.abort
        a = self.real.is_alive()
        if a != self.sw.alive:
            # a real worker may lag behind only in the direction dead-in-model/alive-for-real, and we waited for that
            raise Mismatch('is_alive(): real %s, model %s (worker %d)' % (a, self.sw.alive, self.sw.idx))
        return a

    def realise_death(self, how):
        if how == 'eof':
            if self.rep.kind == 'thread':
                raise NotApplicable('a thread worker cannot die with a bare EOF')
            if self.rep.kind == 'remote':
                raise NotApplicable('the forwarding thread of a remote worker always synthesises an end marker')
            os.kill(self.real.pid, signal.SIGKILL)
        else:
            r = self.real.terminate(timeout=10, force=False)
            if not r:
                raise Mismatch('graceful terminate of the real worker failed')
        wait_until(lambda: not self.real.is_alive(), 10, 'real worker dead')
        wait_until(lambda: (self.proxy.fill(), self.proxy.eof)[1], 10, 'EOF on the real results pipe')

    def enqueue(self, *inp):
        # Pool.try_enqueue swallows every exception raised here (bare except): park harness verdicts and re-raise
        # them from the next call the pool makes outside that try block
        try:
            return self._enqueue(*inp)
        except (NotApplicable, Mismatch) as e:
            self.rep.abort = e
            raise

    def _enqueue(self, *inp):
        from pyworkers.persistent import WorkerClosedError
        nlog = len(self.rep.box.log)
        try:
            self.sw.enqueue(*inp)
        except WorkerClosedError:
            try:
                self.real.enqueue(*inp)
            except WorkerClosedError:
                raise
            raise Mismatch('model: enqueue on dead worker raises WorkerClosedError; real enqueue succeeded')
        if any(l[0] == 'dropped' for l in self.rep.box.log[nlog:]):
            raise NotApplicable('accept-and-drop window cannot be realised deterministically')
        self.real.enqueue(*inp)

    def close(self):
        return self.real.close()

    def wait(self, *a, **k):
        return self.real.wait(*a, **k)

    def terminate(self, *a, **k):
        return self.real.terminate(*a, **k)

    @property
    def has_error(self):
        return self.real.has_error

    @property
    def error(self):
        return self.real.error


class Replayer:
    def __init__(self, cfg, choices, kind):
        self.cfg, self.choices, self.kind = cfg, list(choices), kind
        self.abort = None

    def run(self):
        import pyworkers.pool as P
        from pyworkers.persistent_thread import PersistentThreadWorker
        from pyworkers.persistent_process import PersistentProcessWorker
        from . import targets
        cfg = self.cfg
        if cfg.get('poison') and False:
            pass
        gdir = tempfile.mkdtemp(prefix='pwv_gates_')
        box = self.box = Box(cfg)
        box.reset(self.choices, set())
        adapters = []
        rep = self
        opened = {}

        def open_gate(widx, n, what):
            with open(os.path.join(gdir, '%d.%d.tmp' % (widx, n)), 'w') as f:
                f.write(what)
            os.rename(os.path.join(gdir, '%d.%d.tmp' % (widx, n)), os.path.join(gdir, '%d.%d' % (widx, n)))

        def compare():
            for a in adapters:
                a.proxy.fill()
                real = [(m[0], m[1], m[2]) for m in a.proxy.buf] + (['EOF'] if a.proxy.eof else [])
                model = [poolx._msgkey(m) for m in a.sw.conn.items]
                if a.sw.conn.closed:
                    continue
                # model conn.items keeps 'EOF' for ever; real proxy too
                if real != model:
                    raise Mismatch('result pipe of worker %d: real %r, model %r' % (a.sw.idx, real, model))
                for m in a.proxy.buf:
                    if m[3] != a.real.id:
                        raise Mismatch('message carries a foreign worker id')

        def wait(conns, timeout=None):
            if rep.abort:
                raise rep.abort
            conns = list(conns)
            box.ticks = 0
            box.pool_conns = lambda: [a.sw.conn for a in adapters if a.proxy in conns]
            live, opts = macro_options(box)
            if not opts:
                raise poolx.Deadlock('deadlock')
            c = box.choose(len(opts), 'macro')
            combo = opts[c]
            for w, (k, d) in zip(live, combo):
                a = adapters[w.idx]
                for _ in range(k):
                    x = w.queue[0]
                    ncall = opened.get(w.idx, 0) + 1
                    opened[w.idx] = ncall
                    poison = x in box.poison
                    before = len(a.proxy.buf)
                    ok = w.answer()     # shadow (a poison input kills the shadow -> on_die -> but that is a target exception, no terminate needed)
                    open_gate(w.idx, ncall, 'raise' if poison else 'ok')
                    if poison:
                        wait_until(lambda: not a.real.is_alive(), 10, 'poisoned real worker dead')
                        wait_until(lambda: (a.proxy.fill(), a.proxy.eof)[1], 10, 'EOF after poison')
                        break
                    wait_until(lambda: (a.proxy.fill(), len(a.proxy.buf) > before)[1], 10, 'answer of real worker %d' % w.idx)
                if d and w.alive:
                    w.die(d)
            compare()
            ready = [cn for cn in conns if cn.ready()]
            mready = [a.proxy for a in adapters if a.proxy in conns and a.sw.conn.ready()]
            if ready != mready:
                raise Mismatch('ready set differs')
            return ready

        class PoisonShadow(ScriptedWorker):
            on_die = None
            _in_poison = False

            def answer(self):
                self._in_poison = True
                try:
                    return ScriptedWorker.answer(self)
                finally:
                    self._in_poison = False

            def die(self, how):
                ScriptedWorker.die(self, how)
                if self.on_die and not self._in_poison:
                    self.on_die(how)

        shim_mp = types.SimpleNamespace(connection=types.SimpleNamespace(wait=wait))
        def fake_sleep(s):
            if rep.abort:
                raise rep.abort
            box.tick()
        shim_time = types.SimpleNamespace(sleep=fake_sleep, time=time.time)
        saved = (P.mp, P.time, P.Pipe)
        P.mp, P.time, P.Pipe = shim_mp, shim_time, ProxyPipe
        pool = None
        try:
            pool = P.Pool(None, retry=cfg['retry'], close_timeout=2)
            from pyworkers.persistent_remote import PersistentRemoteWorker
            cls = {'thread': PersistentThreadWorker, 'process': PersistentProcessWorker, 'remote': PersistentRemoteWorker}[self.kind]
            extra_kw = {'host': _server().addr} if self.kind == 'remote' else {}

            def factory(**kw):
                idx = len(box.workers)
                rp = kw['results_pipe']
                real = cls(targets.gate_target, results_pipe=rp, kwargs={'widx': idx, 'gdir': gdir}, name='pwv-%d' % idx, **extra_kw)
                sw = PoisonShadow(box, idx, FakePipe())
                box.workers.append(sw)
                rp.parent_end.shadow = sw.conn
                a = Adapter(rep, real, sw, rp.parent_end)
                adapters.append(a)
                return a
            for _ in range(cfg['workers']):
                pool.add_worker(factory)
            inputs = list(cfg['inputs'])

            def gen():
                for x in inputs:
                    box.consumed += 1
                    yield x
            if cfg.get('source') == 'callable':
                it = gen()
                sources = [lambda worker: next(it)]
            else:
                sources = [gen()]
            kwargs = {'worker_extra_pending_inputs': cfg['extra'], 'return_results': cfg.get('return_results', True)}
            if cfg.get('enqueue_fn'):
                kwargs['enqueue_fn'] = poolx.make_enqueue_fn(box, cfg['enqueue_fn'])
                # the predicate looks at worker.idx
                for a in adapters:
                    a.idx = a.sw.idx
            if not cfg.get('return_results', True):
                def cb(worker, event, *a):
                    if event == 'finished':
                        box.finished_cb.append(a[0])
                kwargs['worker_callback'] = cb
            try:
                r = pool.run(*sources, **kwargs)
                out = Outcome('return', results=tuple(sorted(r)) if r is not None else None)
            except P.PoolError as e:
                out = Outcome('PoolError', partial=tuple(sorted(e.partial_results)) if e.partial_results is not None else None)
            except (NotApplicable, Mismatch):
                raise
            except poolx.Deadlock as e:
                out = Outcome('deadlock', msg=str(e)[:60])
            except poolx.Livelock:
                out = Outcome('livelock', msg='no progress')
            except Exception as e:  # noqa
                out = Outcome('internal-error', type=type(e).__name__, msg=str(e)[:80])
            out.finished_cb = tuple(sorted(box.finished_cb))
            return out
        finally:
            P.mp, P.time, P.Pipe = saved
            # release and reap the real workers
            for a in adapters:
                try:
                    if a.real.is_alive():
                        if self.kind == 'thread':
                            a.real.terminate(timeout=5, force=False)
                        else:
                            a.real.terminate(timeout=0.5, force=True)
                            if a.real.is_alive():
                                os.kill(a.real.pid, signal.SIGKILL)
                except Exception:  # noqa
                    pass
            shutil.rmtree(gdir, ignore_errors=True)


def model_outcome(cfg, choices):
    box, out, trace = poolx.replay_choices(cfg, choices)
    out.finished_cb = tuple(sorted(box.finished_cb))
    used = [c for (_, c, _) in trace]
    return out, used


def okey(out):
    d = {k: v for k, v in out.__dict__.items() if k != 'pool'}
    return repr(sorted(d.items()))


def replay_one(args):
    cfg, choices, kind = args
    import logging
    logging.disable(logging.CRITICAL)
    mout, used = model_outcome(cfg, choices)
    try:
        rout = Replayer(cfg, used, kind).run()
    except NotApplicable as e:
        return ('na', str(e), cfg, choices, kind)
    except Mismatch as e:
        return ('mismatch', str(e), cfg, choices, kind)
    finally:
        if kind == 'remote':
            _stop_server()
    if okey(rout) != okey(mout):
        return ('mismatch', 'outcome: real %s, model %s' % (okey(rout), okey(mout)), cfg, choices, kind)
    return ('ok', mout.kind, cfg, choices, kind)


CONF_BOXES = [
    {'workers': 2, 'inputs': [1, 2, 3], 'extra': 1, 'deaths': 1, 'retry': True},
    {'workers': 2, 'inputs': [1, 2, 3], 'extra': 0, 'deaths': 1, 'retry': False},
    {'workers': 2, 'inputs': [1, 2, 3, 4], 'extra': 1, 'deaths': 2, 'retry': True},
    {'workers': 2, 'inputs': [1, 2, 3], 'extra': 1, 'deaths': 1, 'retry': True, 'poison': [2]},
    {'workers': 1, 'inputs': [1, 2], 'extra': 1, 'deaths': 1, 'retry': True},
    {'workers': 2, 'inputs': [1, 2, 3, 4, 5], 'extra': 1, 'deaths': 1, 'retry': True},
]


def collect_traces(cfg):
    traces = []

    def on_exec(box, out, choices):
        traces.append((list(choices), out.kind))
    poolx.explore(cfg, on_exec, perms=False)
    return traces


def _quiet():
    # real children log their (expected) WorkerTerminatedError tracebacks to stderr; keep the check's output readable
    fd = os.open(os.devnull, os.O_WRONLY)
    os.dup2(fd, 2)


def conformance(ctx):
    """Replays explored traces on real workers. quick: a deterministic stride through every conformance box, both kinds;
    thorough: every complete trace of the boxes."""
    jobs = []
    for bi, cfg in enumerate(CONF_BOXES):
        tr = collect_traces(cfg)
        if ctx.quick:
            # a stride that keeps every outcome kind represented, shortest traces first
            tr.sort(key=lambda t: (len(t[0]), t[0]))
            kinds = {}
            for t in tr:
                kinds.setdefault(t[1], []).append(t)
            pick = []
            for k, lst in kinds.items():
                step = max(1, len(lst) // 6)
                pick.extend(lst[::step][:7])
            tr = pick
        elif bi >= 4 and len(tr) > 400:
            tr = tr[::max(1, len(tr) // 400)]
        for choices, _ in tr:
            jobs.append((cfg, choices, 'thread'))
            jobs.append((cfg, choices, 'process'))
            if not ctx.quick or bi == 0:
                jobs.append((cfg, choices, 'remote'))
    n_ok = n_na = 0
    bad = []
    per_kind = {}
    import concurrent.futures as cf
    mpctx = multiprocessing.get_context('spawn')
    # fresh worker processes every BATCH jobs (max_tasks_per_child of ProcessPoolExecutor can dead-lock in CPython 3.12.1)
    nproc = min(12, os.cpu_count() or 4)
    BATCH = nproc * 40
    for b0 in range(0, len(jobs), BATCH):
        with cf.ProcessPoolExecutor(nproc, mp_context=mpctx, initializer=_quiet) as pool:
            for res in pool.map(replay_one, jobs[b0:b0 + BATCH], chunksize=2):
                pk = per_kind.setdefault(res[4], {'ok': 0, 'na': 0, 'mismatch': 0})
                pk[res[0]] += 1
                if res[0] == 'ok':
                    n_ok += 1
                elif res[0] == 'na':
                    n_na += 1
                else:
                    bad.append({'why': res[1], 'box': res[2], 'choices': res[3], 'kind': res[4]})
    ctx.extra['conformance_per_kind'] = per_kind
    return n_ok, n_na, bad


if __name__ == '__main__':
    import logging
    logging.disable(logging.CRITICAL)
    cfg = json.loads(sys.argv[1])
    choices = json.loads(sys.argv[2])
    print(replay_one((cfg, choices, sys.argv[3])))
