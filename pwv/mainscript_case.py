"""Run as a *script* (its module is __main__): the target, its result class and its exception class live in the main
script. Prints one JSON line per worker kind with what the worker reported, to be compared with the direct call."""
import sys
import json


class MainRes:
    def __init__(self, v):
        self.v = v

    def __eq__(self, o):
        return type(o).__name__ == 'MainRes' and o.v == self.v


class MainErr(Exception):
    pass


def main_target(x, mode='value'):
    if mode == 'value':
        return MainRes([x, x])
    if mode == 'raise':
        raise MainErr('from-main', x)
    return x + 1


def rep(v):
    if type(v).__name__ == 'MainRes':
        return {'MainRes': v.v}
    if isinstance(v, BaseException):
        return {'exc': type(v).__name__, 'args': list(v.args)}
    return v


if __name__ == '__main__':
    from pyworkers.thread import ThreadWorker
    from pyworkers.process import ProcessWorker
    from pyworkers.remote import RemoteWorker
    from pyworkers.remote_server import spawn_server
    kind, mode = sys.argv[1], sys.argv[2]
    server = None
    out = {'kind': kind, 'mode': mode}
    try:
        if kind == 'T':
            w = ThreadWorker(main_target, args=[3], kwargs={'mode': mode})
        elif kind == 'P':
            w = ProcessWorker(main_target, args=[3], kwargs={'mode': mode})
        else:
            server = spawn_server(('127.0.0.1', 0))
            w = RemoteWorker(main_target, args=[3], kwargs={'mode': mode}, host=server.addr)
        out['wait'] = w.wait(20)
        out['has_error'] = w.has_error
        out['result'] = rep(w.result)
        out['error'] = rep(w.error)
    except BaseException as e:  # noqa
        out['harness_error'] = '%s: %s' % (type(e).__name__, e)
    finally:
        if server is not None:
            try:
                server.terminate(timeout=1, force=True)
            except Exception:  # noqa
                pass
    print('PWV-RESULT ' + json.dumps(out), flush=True)
