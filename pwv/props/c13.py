"""C13 - remote_pickle is invisible to code that does not opt in (GRAPH)."""
import io
import re
import copy
import enum
import uuid
import array
import pickle
import decimal
import pathlib
import datetime
import fractions
import itertools
import collections
import dataclasses

from .. import graph as G

LEVEL = 'exploration'
ENGINE = 'GRAPH'
TECHNIQUE = 'bounded exhaustive enumeration of opt-in-free object graphs, generated class features, a standard-library value menu and all 1-3 level __getstate__ signature chains (linear and as mix-in bases, with and without the bases pickled beforehand), x pickle protocols x {remote True, False}, compared with standard pickle on the real remote_pickle'
LEVEL_TEXT = ('differential oracle against the standard pickle module over a bounded-exhaustive input space: every ordered tree up to the node bound with every single back-edge, every generated class-feature combination, the listed standard values, and every chain of __getstate__ signatures up to 3 levels (Warning clause, reference predicate written from the statement)')
LEVEL_NOTE = 'equivalence is structural equality of the loaded graphs (sharing included) or equality of the exception type; only the listed node kinds, class features and standard values are covered'


@dataclasses.dataclass
class DC:
    a: int
    b: list


NT = collections.namedtuple('NT', ['x', 'y'])


class Color(enum.Enum):
    RED = 1
    BLUE = 2


class MyError(Exception):
    def __init__(self, a, b=2):
        super().__init__(a, b)
        self.a = a


def a_function(x):
    return x


def std_menu():
    return [
        None, True, 0, -1, 2 ** 70, 1.5, 'text', b'bytes', bytearray(b'ba'), (), [], {}, set(), frozenset([1, 2]),
        [1, [2, (3, {'k': {4}})]], complex(1, 2), range(3, 9, 2), slice(1, 2, 3), Ellipsis,
        datetime.datetime(2020, 1, 2, 3, 4, 5), datetime.date(2020, 1, 2), datetime.timedelta(3), datetime.timezone.utc,
        decimal.Decimal('1.25'), fractions.Fraction(3, 4), uuid.UUID(int=5), pathlib.PurePosixPath('/a/b'),
        Color.RED, DC(1, [2]), NT(1, 'y'), collections.OrderedDict(a=1), collections.defaultdict(list, a=[1]),
        collections.deque([1, 2]), collections.Counter('aab'),
        ValueError('m', 2), KeyError('k'), MyError(1), OSError(2, 'x'),
        a_function, DC, Color, len, int, re.compile('a+b', re.I), array.array('i', [1, 2, 3]),
        object(), type(None), NotImplemented,
    ]


def eq(a, b):
    if type(a) is not type(b):
        return False
    if isinstance(a, BaseException):
        return a.args == b.args and a.__dict__ == b.__dict__
    if type(a) is object:
        return True
    if isinstance(a, re.Pattern):
        return a.pattern == b.pattern and a.flags == b.flags
    return a == b


# ---- generated plain classes -----------------------------------------------------------------------------------
def plain_variants():
    """Classes without a remote-aware __getstate__, every accepted combination of the listed features."""
    out = []
    g = G.__dict__
    for gs, ss, slots, newargs, reduce_ in itertools.product(('none', 'self', 'kw'), (False, True), (False, True), (False, True), (False, True)):
        if reduce_ and (gs != 'none' or ss or newargs):
            continue   # __reduce__ takes over completely; combinations add nothing
        name = 'PV_%s_%d%d%d%d' % (gs, ss, slots, newargs, reduce_)
        if name in g:
            out.append(g[name])
            continue
        d = {'__module__': G.__name__, '__qualname__': name}
        if slots:
            d['__slots__'] = ('s1', '__dict__')
        if gs == 'self':
            def __getstate__(self):
                st = dict(self.__dict__)
                st['_via'] = 'getstate'
                return st
            d['__getstate__'] = __getstate__
        elif gs == 'kw':
            def __getstate__(self, **kw):
                st = dict(self.__dict__)
                st['_via'] = 'getstate-kw%d' % len(kw)
                return st
            d['__getstate__'] = __getstate__
        if ss:
            def __setstate__(self, state):
                if isinstance(state, tuple):
                    state = dict(state[0] or {}, **(state[1] or {}))
                self.__dict__.update(state)
                self.__dict__['_set'] = True
            d['__setstate__'] = __setstate__
        if newargs:
            def __new__(cls, *a):
                o = object.__new__(cls)
                o.__dict__['_newargs'] = a
                return o

            def __getnewargs__(self):
                return (1, 'na')
            d['__new__'] = __new__
            d['__getnewargs__'] = __getnewargs__
        if reduce_:
            def __reduce__(self):
                return (_rebuild, (type(self).__name__, dict(self.__dict__)))
            d['__reduce__'] = __reduce__
        c = type(name, (object,), d)
        g[name] = c
        out.append(c)
    return out


def _rebuild(clsname, d):
    o = G.__dict__[clsname].__new__(G.__dict__[clsname])
    o.__dict__.update(d)
    o.__dict__['_via'] = 'reduce'
    return o


G._rebuild = _rebuild
_rebuild.__module__ = G.__name__


def both(ctx, what, case, f_rp, f_std, cmp, sigs, sigdetail):
    """Differential step: both raise the same exception type, or both succeed with equivalent results."""
    ctx.count()
    try:
        a = ('ok', f_rp())
    except BaseException as e:  # noqa
        a = ('exc', type(e).__name__)
    try:
        b = ('ok', f_std())
    except BaseException as e:  # noqa
        b = ('exc', type(e).__name__)
    ok = a[0] == b[0] and (cmp(a[1], b[1]) if a[0] == 'ok' else a[1] == b[1])
    ctx.outcome(what + ':' + ('ok' if ok else 'differs'))
    if not ok:
        sig = 'GRAPH/%s/%s' % (what, sigdetail if a[0] == 'ok' or b[0] == 'ok' else 'different-exceptions')
        if a[0] == 'exc' and b[0] == 'ok':
            sig = 'GRAPH/%s/%s/raises-%s' % (what, sigdetail, a[1])
        sigs[sig] = sigs.get(sig, 0) + 1
        ctx.violation(sig, case, {'remote_pickle': repr(a)[:300], 'pickle': repr(b)[:300]}, 'equivalent to standard pickle', engine='GRAPH')
    return ok


# ---- Warning clause ---------------------------------------------------------------------------------------------
def expected_chain(sigs_derived_first):
    """Reference predicate, written from the statement: walking from the most derived class to the base, a class that
    overrides __getstate__ without the flag and without **kw, sitting below (= more derived than) a remote-aware one,
    makes the chain inconsistent. A __reduce__ stops the walk (the class is not remote-aware at all).
    Returns ('warning' | 'remote' | 'plain')."""
    blocked = False
    remote = False
    for s in sigs_derived_first:
        if s == 'R':          # defines __reduce__
            remote = False
            break
        if s in ('r', 'q', 'w'):
            if blocked:
                return 'warning'
            remote = True
        elif s == 'p':
            blocked = True
    return 'remote' if remote else 'plain'


_chain_n = [0]


def _warm(cls):
    """History step: an instance of a class of the chain goes through remote_pickle before the next class is defined
    (whatever that dump does - result, Warning or error - is not what is being judged here)."""
    import pyworkers.remote_pickle as rp
    try:
        o = cls()
        o.v = 0
        rp.dumps(o)
    except BaseException:  # noqa
        pass


def make_chain(sig_base_first, root, warm=False, shape='linear'):
    """Build the class chain base-first; returns ('warning-at-creation', level) or the most derived class.
    shape 'mixin': the levels are independent classes and the class under test lists them as its bases (most derived first),
    so its MRO reads like the linear chain. warm: every class already defined has had an instance dumped by remote_pickle
    before the next one is created (the verdict about a class must not depend on what was pickled earlier)."""
    from pyworkers.remote_pickle import SupportRemoteGetState
    if shape == 'mixin':
        parts = []
        for s in sig_base_first:
            c = make_chain((s,), root, warm=warm)
            assert not isinstance(c, tuple)
            if warm:
                _warm(c)
            parts.append(c)
        _chain_n[0] += 1
        name = 'CHX%d_%s_%s' % (_chain_n[0], root, ''.join(sig_base_first))
        try:
            cls = type(parts[0])(name, tuple(reversed(parts)), {'__module__': G.__name__, '__qualname__': name})
        except Warning:
            return ('warning-at-creation', len(sig_base_first) - 1)
        G.__dict__[name] = cls
        return cls
    bases = (SupportRemoteGetState,) if root == 'meta' else (object,)
    cls = None
    for lvl, s in enumerate(sig_base_first):
        _chain_n[0] += 1
        name = 'CH%d_%s_%s' % (_chain_n[0], root, ''.join(sig_base_first[:lvl + 1]))
        d = {'__module__': G.__name__, '__qualname__': name}
        holder = []
        if s == 'r':
            def __getstate__(self, remote=False, _h=holder):
                G.LOG.append(('get', _h[0].__name__, bool(remote)))
                st = dict(self.__dict__)
                st['_how'] = 'remote' if remote else 'local'
                return st
            d['__getstate__'] = __getstate__
        elif s == 'q':
            # names the flag and has a catch-all as well: remote-aware all the same
            def __getstate__(self, remote=False, _h=holder, **kw):
                G.LOG.append(('get', _h[0].__name__, bool(remote)))
                st = dict(self.__dict__)
                st['_how'] = 'remote' if remote else 'local'
                return st
            d['__getstate__'] = __getstate__
        elif s == 'w':
            # the flag as a keyword-only parameter: names it, so remote-aware
            def __getstate__(self, *, remote=False, _h=holder):
                G.LOG.append(('get', _h[0].__name__, bool(remote)))
                st = dict(self.__dict__)
                st['_how'] = 'remote' if remote else 'local'
                return st
            d['__getstate__'] = __getstate__
        elif s == 'p':
            def __getstate__(self, _h=holder):
                G.LOG.append(('get', _h[0].__name__, 'noflag'))
                return dict(self.__dict__)
            d['__getstate__'] = __getstate__
        elif s == 'k':
            def __getstate__(self, _h=holder, **kw):
                G.LOG.append(('get', _h[0].__name__, 'kw:' + ','.join('%s=%s' % kv for kv in sorted(kw.items()))))
                sup = super(_h[0], self)
                if hasattr(sup, '__getstate__'):
                    try:
                        st = sup.__getstate__(**kw)
                    except TypeError:
                        st = sup.__getstate__()
                    return st if st is not None else dict(self.__dict__)
                return dict(self.__dict__)
            d['__getstate__'] = __getstate__
        elif s == 'R':
            def __reduce__(self, _h=holder):
                return (_rebuild, (_h[0].__name__, dict(self.__dict__)))
            d['__reduce__'] = __reduce__
        try:
            cls = type(bases[0])(name, bases, d) if root == 'meta' else type(name, bases, d)
        except Warning:
            return ('warning-at-creation', lvl)
        holder.append(cls)
        G.__dict__[name] = cls
        bases = (cls,)
        if warm and lvl + 1 < len(sig_base_first):
            _warm(cls)
    return cls


def run(ctx):
    import logging
    logging.disable(logging.CRITICAL)
    import pyworkers.remote_pickle as rp
    from multiprocessing.reduction import ForkingPickler
    sigs = {}
    protos = (None, 0, 2) if ctx.quick else (None, 0, 1, 2, 3, 4, 5)
    n_max = 4 if ctx.quick else 5
    ctx.rule = ('(1) every ordered tree with <= %d nodes over {list, tuple, dict, set, plain instance} + every single back-edge; '
                '(2) instances of %d generated plain classes (getstate none/self/**kw x setstate x slots x getnewargs x reduce); '
                '(3) a menu of %d standard values; (4) opt-in graphs with remote=False and through pickle/copy/deepcopy/ForkingPickler; '
                '(5) every chain of 1-3 levels over signatures {none, (self), (self, remote=False), (self, **kw), (self, remote=False, **kw), (self, *, remote=False)%s} x {metaclass, duck-typed} x {linear chain, mix-in bases of one class} x {fresh, every class defined so far dumped before the next is created}; '
                'x protocols %s; oracle = standard pickle' % (n_max, len(plain_variants()), len(std_menu()),
                                                             ', __reduce__', list(protos)))
    # (1) opt-in-free graphs
    specs = []
    for n in range(1, n_max + 1):
        for t in G.gen_trees(n, ('L', 'T', 'D', 'S', 'P'), (), depth=4):
            specs.append(t)
            if n <= 4:
                specs.extend(G.with_backedges(t))
    for spec in specs:
        for p in protos:
            for remote in (True, False):
                g, _ = G.build(spec)
                both(ctx, 'plain-graph', {'spec': spec, 'protocol': p, 'remote': remote},
                     lambda: G.canon(rp.loads(rp.dumps(g, p, remote=remote))), lambda: G.canon(pickle.loads(pickle.dumps(g, p))),
                     lambda a, b: a == b, sigs, 'result-differs')
                ctx.distinct(('g', repr(spec), p, remote))
    ctx.sample({'part': 'plain-graph', 'spec': specs[len(specs) // 3]})
    # (2) generated plain classes
    for cls in plain_variants():
        for p in protos:
            for remote in (True, False):
                o = cls.__new__(cls) if '__getnewargs__' not in cls.__dict__ else cls(1, 'na')
                o.__dict__['v'] = [1, 2]
                o.__dict__['w'] = 'x'
                if '__slots__' in cls.__dict__:
                    o.s1 = 5
                holder = [o, {'same': o}]
                both(ctx, 'class-features', {'class': cls.__name__, 'protocol': p, 'remote': remote},
                     lambda: G.canon(rp.loads(rp.dumps(holder, p, remote=remote))), lambda: G.canon(pickle.loads(pickle.dumps(holder, p))),
                     lambda a, b: a == b, sigs, cls.__name__)
                ctx.distinct(('c', cls.__name__, p, remote))
    ctx.sample({'part': 'class-features', 'classes': [c.__name__ for c in plain_variants()][:6]})
    # (3) standard values
    for i, v in enumerate(std_menu()):
        for p in protos:
            for remote in (True, False):
                both(ctx, 'std-value', {'value': repr(v)[:60], 'type': type(v).__name__, 'protocol': p, 'remote': remote},
                     lambda: rp.loads(rp.dumps(v, p, remote=remote)), lambda: pickle.loads(pickle.dumps(v, p)), eq, sigs,
                     type(v).__name__)
                ctx.distinct(('v', i, p, remote))
    ctx.sample({'part': 'std-value', 'values': [repr(v)[:30] for v in std_menu()[20:26]]})
    # (4) opt-in graphs: remote=False is standard pickling; pickle/copy/mp never pass the flag
    ospecs = []
    for n in range(1, 4 if ctx.quick else 5):
        for t in G.gen_trees(n, ('L', 'D', 'P', 'R'), G.VARIANTS, depth=3):
            if any(s[0] == 'R' for s in G._all(t)):
                ospecs.append(t)
    from .c14 import families, cause
    ospecs.extend(families())
    for spec in ospecs:
        for p in protos:
            g, nodes = G.build(spec)
            del G.LOG[:]
            ok = both(ctx, 'optin-remote-false', {'spec': spec, 'protocol': p},
                      lambda: G.canon(rp.loads(rp.dumps(g, p, remote=False))), lambda: G.canon(pickle.loads(pickle.dumps(g, p))),
                      lambda a, b: a == b, sigs, cause('AssertionError', spec))
            flags = set(e[2] for e in G.LOG if e[0] == 'get')
            ctx.distinct(('o', repr(spec), p))
            if True in flags:
                sig = 'GRAPH/optin-remote-false/getstate-called-with-remote-true'
                sigs[sig] = sigs.get(sig, 0) + 1
                ctx.violation(sig, {'spec': spec, 'protocol': p}, sorted(map(str, flags)), 'remote flag never true with remote=False', engine='GRAPH')
        for how, fn in (('pickle', lambda g: pickle.loads(pickle.dumps(g))), ('copy', copy.copy), ('deepcopy', copy.deepcopy),
                        ('mp', lambda g: pickle.loads(bytes(ForkingPickler.dumps(g))))):
            g, nodes = G.build(spec)
            del G.LOG[:]
            ctx.count()
            try:
                fn(g)
                res = 'ok'
            except BaseException as e:  # noqa
                res = type(e).__name__
            flags = set(e[2] for e in G.LOG if e[0] == 'get')
            ctx.outcome('std-%s:%s' % (how, res))
            ctx.distinct(('s', repr(spec), how))
            if True in flags or res != 'ok':
                sig = 'GRAPH/standard-%s-of-optin/%s' % (how, 'remote-flag-set' if True in flags else 'raises-' + res)
                sigs[sig] = sigs.get(sig, 0) + 1
                ctx.violation(sig, {'spec': spec, 'how': how}, {'flags': sorted(map(str, flags)), 'result': res},
                              'standard machinery works and never passes remote=True', engine='GRAPH')
    ctx.sample({'part': 'optin-remote-false', 'spec': ospecs[len(ospecs) // 2]})
    # (5) Warning clause
    alphabet = ('n', 'p', 'r', 'k', 'R', 'q', 'w')
    nchains = 0
    for depth in (1, 2, 3):
        for chain in itertools.product(alphabet, repeat=depth):      # base first
            for root, warm, shape in itertools.product(('meta', 'duck'), (False, True), ('linear', 'mixin')):
                if depth == 1 and (warm or shape == 'mixin'):
                    continue          # nothing is defined after a first dump / nothing to mix
                nchains += 1
                ctx.count()
                exp = expected_chain(list(reversed(chain)))
                if shape == 'linear' and root == 'meta' and any(expected_chain(list(reversed(chain[:i + 1]))) == 'warning' for i in range(depth)):
                    exp = 'warning'     # with the metaclass an inconsistent prefix cannot even be created
                case = {'chain_base_first': ''.join(chain), 'root': root}
                if warm or shape != 'linear':
                    case.update(warm=warm, shape=shape)
                cls = make_chain(chain, root, warm=warm, shape=shape)
                got = None
                if isinstance(cls, tuple):
                    got = 'warning'
                    # the warning must not come earlier than the first inconsistent level
                    exp_prefix = [expected_chain(list(reversed(chain[:i + 1]))) for i in range(depth)]
                    first_bad = exp_prefix.index('warning') if 'warning' in exp_prefix else None
                    if shape == 'linear' and (first_bad is None or cls[1] != first_bad):
                        got = 'warning-at-wrong-level'
                else:
                    o = cls()
                    o.v = 1
                    for attempt in (1, 2):    # a second dump must behave like the first
                        del G.LOG[:]
                        try:
                            data = rp.dumps(o)
                            flags = [e[2] for e in G.LOG if e[0] == 'get']
                            back = rp.loads(data)
                            if True in flags:
                                g2 = 'remote'
                            else:
                                g2 = 'plain'
                            std = pickle.loads(pickle.dumps(o))
                            if g2 == 'plain' and G.canon(back) != G.canon(std):
                                g2 = 'plain-but-differs-from-pickle'
                            # remote=False must be standard pickling whatever the chain looks like
                            try:
                                loc = rp.loads(rp.dumps(o, remote=False))
                                if G.canon(loc) != G.canon(std):
                                    g2 += '+remote-false-differs'
                            except BaseException as e:  # noqa
                                g2 += '+remote-false-raises-' + type(e).__name__
                        except Warning:
                            g2 = 'warning'
                        except BaseException as e:  # noqa
                            g2 = 'raises-' + type(e).__name__
                        if got is None:
                            got = g2
                        elif got != g2:
                            got = '%s-then-%s' % (got, g2)
                ctx.outcome('chain:%s' % got)
                ctx.distinct(('w', chain, root, warm, shape))
                if got != exp:
                    sig = 'GRAPH/getstate-chain/expected-%s-got-%s/%s%s%s' % (exp, got, root, '/bases-pickled-before' if warm else '', '/as-mixins' if shape == 'mixin' else '')
                    sigs[sig] = sigs.get(sig, 0) + 1
                    ctx.violation(sig, case, got, exp, engine='GRAPH')
    ctx.sample({'part': 'getstate-chain', 'chains': nchains, 'alphabet': alphabet})
    ctx.extra['failure_signatures'] = sigs
    ctx.extra['plain_graphs'] = len(specs)
    ctx.extra['optin_graphs'] = len(ospecs)
    ctx.extra['chains'] = nchains


def replay(ctx, rec):
    print('C13 replay: re-run the check; the case is', rec['case'])
    run(ctx)
