"""C06 - a persistent result stream is a correct prefix and always ends, whatever happens (LAND)."""
import os

from .. import land

LEVEL = 'fault_enumeration'
ENGINE = 'LAND'
TECHNIQUE = 'exhaustive enumeration of crash points: graceful terminate, SIGKILL and target exception landing at every line-level point of the persistent child loop (receive input, call target, count, send, cleanup), for 0-3 inputs, consumed through the API and through the raw result pipe the way the Pool does; the parent-side forwarding thread held at each of its lines; forced termination; a kill in the middle of sending a result bigger than the pipe buffer; a result the receiving side cannot recreate'
LEVEL_TEXT = ('one real run per (persistent class, inputs, event, landing point, consumer); oracle: the obtained results equal the first k expected results in order for some k, the stream ends (queue.Empty / end marker / EOF) within the hang bound, a second read after the end still raises queue.Empty, raw messages carry counters 1..k and are well formed')
LEVEL_NOTE = 'one asynchronous event per run; quick: n <= 2 inputs, callee frames collapsed; thorough adds KeyboardInterrupt landings and n <= 5'

REPO = os.environ.get('PWV_REPO', '/repo')


def scenarios(quick):
    out = []
    for kind in ('PT', 'PP', 'PR'):
        for n in ((0, 2) if quick else (0, 1, 2, 3, 5)):
            for pipe in ('default', 'supplied'):
                out.append({'kind': kind, 'target': 'p_echo', 'inputs': list(range(1, n + 1)), 'close': True, 'pipe': pipe})
        for pipe in ('default', 'supplied'):
            out.append({'kind': kind, 'target': 'p_poison', 'inputs': [1, 99, 3], 'close': True, 'pipe': pipe})
        # the target leaves with something which is not an Exception (base path only: no landing sweep of its own)
        out.append({'kind': kind, 'target': 'p_sysexit', 'inputs': [1, 99, 3], 'close': True, 'pipe': 'default', 'base_only': True})
        out.append({'kind': kind, 'target': 'p_sysexit', 'inputs': [1, 99, 3], 'close': True, 'pipe': 'supplied', 'base_only': True})
        # a consumer already blocked on the stream while the worker is alive
        out.append({'kind': kind, 'target': 'p_echo', 'inputs': [1, 2], 'close': True, 'pipe': 'default', 'consume': 'live'})
    return out


def forced_cases():
    """The child ignores the graceful request and is killed by the forced phase of terminate()."""
    out = []
    for kind in ('PP', 'PR'):
        for pipe in ('default', 'supplied'):
            for consume in (('api', 'live') if pipe == 'default' else ('raw',)):
                c = {'kind': kind, 'target': 'slow_echo', 'targs': {'delay': 0.0}, 'inputs': [1, 2, 'STUBBORN'], 'close': False, 'pipe': pipe,
                     'forced_terminate': True, 'events': []}
                if consume == 'live':
                    c['consume'] = 'live'
                out.append(c)
    return out


def actions(quick):
    def f(s):
        if s['kind'] == 'PT':
            return ['terminate']
        # thorough: also KeyboardInterrupt raised at the landing point (what SIGINT does to the main thread of a child)
        return ['terminate', 'sigkill'] if quick else ['terminate', 'sigkill', 'interrupt']
    return f


FWD_ARM = {'file': 'persistent_remote.py', 'func': '_fetch_results', 'cls': 'PersistentRemoteWorker', 'line_text': 'counter = 0'}


def forwarder_script(k, event):
    """The parent-side forwarding thread is held at its line event k while the child is killed / terminated / fails."""
    inputs = [1, 2] if event != 'target-exception' else [1, 'POISON', 3]
    sc = [{'op': 'land_inproc', 'arm': FWD_ARM, 'events': ([{'k': k, 'action': 'pause', 'cap': 15}] if k else [])},
          {'op': 'create', 'var': 'w', 'kind': 'PR', 'target': 'slow_echo', 'kwargs': {'delay': 0.0}}]
    for x in inputs:
        sc.append({'op': 'call', 'var': 'w', 'method': 'enqueue', 'args': [x]})
    if k:
        sc.append({'op': 'wait_reached', 'timeout': 6, 'tag': 'reached'})
    if event == 'sigkill':
        sc += [{'op': 'sleep', 's': 0.15}, {'op': 'kill', 'var': 'w', 'sig': 'KILL'}, {'op': 'sleep', 's': 0.1}]
    elif event == 'terminate':
        sc += [{'op': 'sleep', 's': 0.15}, {'op': 'call', 'var': 'w', 'method': 'terminate', 'kwargs': {'timeout': 0.3, 'force': False}, 'timeout': 20, 'tag': 'terminate'}]
    elif event == 'none':
        sc += [{'op': 'call', 'var': 'w', 'method': 'close'}, {'op': 'sleep', 's': 0.2}]
    else:
        sc += [{'op': 'sleep', 's': 0.3}]
    if k:
        sc.append({'op': 'land_release'})
    sc += [{'op': 'poll_dead', 'var': 'w', 'timeout': 10, 'tag': 'dead'},
           {'op': 'drain', 'var': 'w', 'tag': 'drain'},
           {'op': 'call', 'var': 'w', 'method': 'next_result', 'timeout': 3, 'tag': 'after-end'},
           {'op': 'get', 'var': 'w', 'attr': 'has_error', 'tag': 'has_error'},
           {'op': 'land_inproc_report', 'tag': 'report'}]
    return sc


def judge_forwarder(sc, obs, event):
    if obs.get('driver_hang') or obs.get('driver_error'):
        return ('harness', obs.get('driver_hang') or obs.get('driver_error'))
    t = {}
    for op, st in zip(sc, obs['steps']):
        if op.get('tag'):
            t[op['tag']] = st
        if st.get('harness_error'):
            return ('harness', st)
    if 'reached' in t and t['reached'].get('ret') is not True:
        return ('beyond-end', None)
    if t.get('dead', {}).get('ret') is not True:
        return ('worker-not-dead', t.get('dead'))
    d = t.get('drain', {})
    exp = [[1], [2]] if event != 'target-exception' else [[1]]
    if d.get('end') != 'empty':
        return ('stream-never-ends' if d.get('end') == 'hang' else 'stream-end-%s' % d.get('end'), d)
    if d.get('ret') != exp[:len(d.get('ret') or [])]:
        return ('not-a-prefix', d)
    if t.get('after-end', {}).get('exc') != 'Empty':
        return ('read-after-end', t.get('after-end'))
    if t.get('has_error', {}).get('ret') not in (True, False):
        return ('has_error=None', t.get('has_error'))
    return None


def torn_cases(quick):
    """The child is killed while it is blocked in the middle of sending a result much bigger than the pipe / socket buffers (nobody
    has been reading): the consumer meets a message which ends half-way."""
    out = []
    size = 3000000
    for kind in ('PP', 'PR'):
        for how in ('KILL', 'TERM', 'forced-terminate'):
            for consumer in ('api', 'iter'):
                for nread in ((0,) if quick else (0, 1)):
                    sc = [{'op': 'create', 'var': 'w', 'kind': kind, 'target': 'slow_echo', 'kwargs': {'delay': 0.0, 'size': size}}]
                    for x in ('a', 'b', 'c'):
                        sc.append({'op': 'call', 'var': 'w', 'method': 'enqueue', 'args': [x]})
                    for i in range(nread):
                        sc.append({'op': 'call', 'var': 'w', 'method': 'next_result', 'kwargs': {'timeout': 10}, 'timeout': 15, 'tag': 'pre%d' % i, 'digest': True})
                    sc.append({'op': 'sleep', 's': 0.8})
                    if how == 'forced-terminate':
                        sc.append({'op': 'call', 'var': 'w', 'method': 'terminate', 'kwargs': {'timeout': 0.5, 'force': True}, 'timeout': 30, 'tag': 'terminate'})
                    else:
                        sc.append({'op': 'kill', 'var': 'w', 'sig': how})
                    sc += [{'op': 'poll_dead', 'var': 'w', 'timeout': 10, 'tag': 'dead'},
                           {'op': 'drain', 'var': 'w', 'tag': 'drain', 'digest': True, 'timeout': 8, 'iter': consumer == 'iter'},
                           {'op': 'call', 'var': 'w', 'method': 'next_result', 'timeout': 3, 'tag': 'after-end'},
                           {'op': 'get', 'var': 'w', 'attr': 'has_error', 'tag': 'has_error'}]
                    out.append({'script': sc, 'kind': kind, 'how': how, 'consumer': consumer, 'nread': nread, 'size': size})
    return out


def unloadable_cases(quick):
    """The child answers with something the receiving side cannot recreate: the remote frontend meets a message it cannot load.
    Consumers: the api, a for loop over results_iter(), and a consumer multiplexing the caller-supplied results pipe like the Pool."""
    out = []
    for kind in ('PR',):
        for consumer in ('api', 'iter', 'mux'):
            for before in ((1,) if quick else (0, 1, 2)):
                sc = [{'op': 'create', 'var': 'w', 'kind': kind, 'target': 'p_badresult', 'pipe': 'supplied' if consumer == 'mux' else 'default'}]
                for x in list(range(1, before + 1)) + [99, 7]:
                    sc.append({'op': 'call', 'var': 'w', 'method': 'enqueue', 'args': [x]})
                if consumer == 'mux':
                    sc.append({'op': 'mux_drain', 'var': 'w', 'tag': 'drain', 'timeout': 10})
                else:
                    sc += [{'op': 'sleep', 's': 0.8},
                           {'op': 'drain', 'var': 'w', 'tag': 'drain', 'timeout': 8, 'iter': consumer == 'iter'}]
                sc += [{'op': 'call', 'var': 'w', 'method': 'terminate', 'kwargs': {'timeout': 3}, 'timeout': 30, 'tag': 'terminate'}]
                out.append({'script': sc, 'kind': kind, 'consumer': consumer, 'before': before})
    return out


def judge_unloadable(case, obs):
    if obs.get('driver_hang') or obs.get('driver_error'):
        return ('harness', obs.get('driver_hang') or obs.get('driver_error'))
    t = {}
    for op, st in zip(case['script'], obs['steps']):
        if op.get('tag'):
            t[op['tag']] = st
    if 'ret' not in obs['steps'][0]:
        return ('harness', obs['steps'][0])
    d = t.get('drain', {})
    exp = [x * 10 for x in range(1, case['before'] + 1)]
    if d.get('end') not in (('marker', 'eof') if case['consumer'] == 'mux' else ('empty',)):
        return ('stream-never-ends' if d.get('end') == 'hang' else 'stream-end-%s' % d.get('end'), {'end': d.get('end'), 'results_before': d.get('ret')})
    got = d.get('ret') or []
    if got != exp[:len(got)]:
        return ('not-a-prefix', {'got': got})
    return None


def judge_torn(case, obs):
    if obs.get('driver_hang') or obs.get('driver_error'):
        return ('harness', obs.get('driver_hang') or obs.get('driver_error'))
    t = {}
    for op, st in zip(case['script'], obs['steps']):
        if op.get('tag'):
            t[op['tag']] = st
        if st.get('harness_error'):
            return ('harness', st)
    if 'ret' not in obs['steps'][0]:
        return ('harness', obs['steps'][0])
    exp = [[x, 'str[%d]:p' % case['size']] for x in ('a', 'b', 'c')]
    got = []
    for i in range(case['nread']):
        if 'ret' not in t['pre%d' % i]:
            return ('harness', t['pre%d' % i])
    if t.get('dead', {}).get('ret') is not True:
        return ('worker-not-dead', t.get('dead'))
    d = t.get('drain', {})
    if d.get('end') != 'empty':
        return ('stream-never-ends' if d.get('end') == 'hang' else 'stream-end-%s' % d.get('end'), {'end': d.get('end'), 'results_before': len(d.get('ret') or [])})
    got = d.get('ret') or []
    if got != exp[case['nread']:case['nread'] + len(got)]:
        return ('not-a-prefix', {'got': got})
    if t.get('after-end', {}).get('exc') != 'Empty':
        return ('read-after-end', t.get('after-end'))
    if t.get('has_error', {}).get('ret') not in (True, False):
        return ('has_error=None', t.get('has_error'))
    return None


def judge(case, obs):
    if obs.get('driver_hang') or obs.get('driver_error'):
        return ('harness', obs.get('driver_hang') or obs.get('driver_error'))
    if obs.get('ctor') != 'ok':
        ev0 = (case.get('events') or [None])[0]
        if ev0 and ev0['action'] in ('sigkill', 'sigterm') and str(obs.get('ctor')).startswith('RAISES:'):
            # the child was killed while the parent's constructor was still waiting for the hand-over of its identity: a
            # constructor which raises is a correct answer (C20), there is no stream to judge
            return ('killed-before-the-constructor-returned', None)
        return ('constructor-' + str(obs.get('ctor')), None)
    if obs.get('not_reached'):
        return ('beyond-end', None)
    if isinstance(obs.get('death'), str) and obs['death'].startswith('RAISES:'):
        return ('wait-' + obs['death'], None)
    tr = obs.get('terminate_ret') or []
    if tr and isinstance(tr[0], str) and tr[0].startswith('RAISES:'):
        return ('terminate-' + tr[0], None)
    if obs.get('death') is not True:
        return ('not-dead', None)
    inputs = case.get('inputs', [])
    exp = []
    for x in inputs:
        if (case['target'] in ('p_poison', 'p_sysexit') and x == 99) or x in ('POISON', 'STUBBORN'):
            break
        exp.append([x] if case['target'] == 'slow_echo' else x * 10)
    res = obs.get('results')
    end = obs.get('stream_end')
    if res is None:
        return ('harness', 'no stream observation, stage %s' % obs.get('stage'))
    raw = case.get('pipe') == 'supplied'
    if raw:
        vals = [r[1] if isinstance(r, list) and len(r) == 2 else r for r in res]
        counters = [r[0] for r in res if isinstance(r, list) and len(r) == 2]
    else:
        vals = res
        counters = None
    if end == 'hang':
        return ('stream-never-ends', None)
    if obs.get('live_consumer_released_by_terminate') is False:
        return ('waiting-consumer-not-released-when-terminate-returned', None)
    if end not in ('empty', 'marker', 'eof'):
        return ('stream-end-%s' % end, None)
    if vals != exp[:len(vals)]:
        return ('not-a-prefix', None)
    if counters is not None and counters != list(range(1, len(counters) + 1)):
        return ('bad-counters', None)
    if not raw and obs.get('after_end') != 'RAISES:Empty':
        return ('read-after-end-%s' % obs.get('after_end'), None)
    ev = (case.get('events') or [None])[0]
    if ev is None and vals != exp and not case.get('forced_terminate'):
        return ('results-missing-without-any-fault', None)
    return None


def run(ctx):
    full = not ctx.quick
    ctx.rule = ('(persistent class, inputs, results pipe, event, landing point k); landing alphabet = LINE events of the child working thread '
                'along the base path; events: terminate, SIGKILL (process/remote), target exception on item 2 (base path of its own)')
    scs = scenarios(ctx.quick)
    bases, runs = land.sweep(scs, actions(ctx.quick), full=full)
    # the other landing alphabet (right after each call made by the loop functions has returned), every point
    post_scs = [dict(s_, post_call=True) for s_ in scs if not s_.get('base_only') and s_.get('pipe') == 'default' and s_.get('consume') != 'live'
                and (len(s_.get('inputs', [])) == 2 or s_['target'] == 'p_poison')]
    pbases, pruns = land.sweep(post_scs, ['terminate'], full=True)
    ctx.extra['post_call_landing_runs'] = len(pruns)
    runs = runs + pruns
    forced = land.run_cases(forced_cases(), case_timeout=90)
    # the parent-side forwarding thread of the remote kind, held at each of its lines while the child ends
    base = land.run_cases([{'script': forwarder_script(0, 'none') + []}], case_timeout=60)[0]
    rep = [st for op, st in zip(forwarder_script(0, 'none'), base.get('steps', [])) if op.get('tag') == 'report']
    fsites = (rep[0].get('ret') or {}).get('sites', []) if rep else []
    if not fsites:
        ctx.selftest_fail('no points recorded in the parent-side forwarding thread')
    ks = [i + 1 for i, st_ in enumerate(fsites) if full or st_[2] == '_fetch_results' or (i and fsites[i - 1][2] == '_fetch_results') or
          (i + 1 < len(fsites) and fsites[i + 1][2] == '_fetch_results')]
    fjobs, fplan = [], []
    for event in ('sigkill', 'terminate', 'target-exception'):
        for k in ks:
            sc = forwarder_script(k, event)
            fjobs.append({'script': sc})
            fplan.append((k, event, sc))
    fres = land.run_cases(fjobs, case_timeout=90)
    ctx.extra['forwarder_points'] = len(fsites)
    ctx.extra['forwarder_runs'] = len(fjobs)
    for (k, event, sc), o in zip(fplan, fres):
        ctx.count()
        ctx.distinct(('forwarder', k, event))
        v = judge_forwarder(sc, o, event)
        ctx.outcome('PR-forwarder:%s:%s' % (event, v[0] if v else 'ok'))
        if v is None or v[0] == 'beyond-end':
            continue
        if v[0] == 'harness':
            ctx.extra.setdefault('harness_anomalies', []).append({'forwarder': [k, event], 'why': str(v[1])[:160]})
            continue
        ctx.violation('LAND/PR/forwarder-held@%s/%s/%s' % (land.site_sig(fsites[k - 1], REPO), event, v[0]), {'k': k, 'event': event, 'site': fsites[k - 1]},
                      v[1], 'a prefix of the expected results, then the end of the stream', engine='LAND')
    tcs = torn_cases(ctx.quick)
    tres = land.run_cases(tcs, case_timeout=120)
    ctx.extra['killed_in_send_runs'] = len(tcs)
    for case, o in zip(tcs, tres):
        ctx.count()
        ctx.distinct(('torn', case['kind'], case['how'], case['consumer'], case['nread']))
        v = judge_torn(case, o)
        ctx.outcome('%s-killed-in-send:%s' % (case['kind'], v[0] if v else 'ok'))
        if v is None:
            continue
        if v[0] == 'harness':
            ctx.extra.setdefault('harness_anomalies', []).append({'torn': [case['kind'], case['how']], 'why': str(v[1])[:160]})
            continue
        ctx.violation('SEQ/%s/killed-in-the-middle-of-a-send/%s/%s/%s' % (case['kind'], case['how'], case['consumer'], v[0]),
                      {k: case[k] for k in ('kind', 'how', 'consumer', 'nread', 'size', 'script')}, v[1],
                      'a prefix of the expected results, then the end of the stream (queue.Empty)', engine='SEQ')
    ucs = unloadable_cases(ctx.quick)
    ures = land.run_cases(ucs, case_timeout=120)
    ctx.extra['unloadable_result_runs'] = len(ucs)
    for case, o in zip(ucs, ures):
        ctx.count()
        ctx.distinct(('unloadable', case['kind'], case['consumer'], case['before']))
        v = judge_unloadable(case, o)
        ctx.outcome('%s-unloadable-result:%s:%s' % (case['kind'], case['consumer'], v[0] if v else 'ok'))
        if v is None:
            continue
        if v[0] == 'harness':
            ctx.extra.setdefault('harness_anomalies', []).append({'unloadable': [case['kind'], case['consumer']], 'why': str(v[1])[:160]})
            continue
        ctx.violation('SEQ/%s/result-which-cannot-be-recreated/%s/%s' % (case['kind'], case['consumer'], v[0]),
                      {k: case[k] for k in ('kind', 'consumer', 'before', 'script')}, v[1],
                      'a prefix of the expected results, then the end of the stream (queue.Empty / end-of-results message / EOF)', engine='SEQ')
    harness = 0
    for obs in bases + runs + forced:
        case = obs['case']
        ev = (case.get('events') or [None])[0]
        site = ((obs.get('landed') or [{}])[0].get('site')) or case.get('_site')      # where it really landed in this run
        ctx.count()
        ctx.distinct((case['kind'], case['target'], len(case.get('inputs', [])), case.get('pipe'), case.get('consume'), bool(case.get('forced_terminate')), bool(case.get('post_call')), ev['action'] if ev else None, ev['k'] if ev else None))
        v = judge(case, obs)
        ctx.outcome('%s:%s' % (case['kind'], v[0] if v else 'ok'))
        if v is None:
            continue
        if v[0] in ('beyond-end', 'not-dead', 'killed-before-the-constructor-returned'):
            ctx.extra[v[0]] = ctx.extra.get(v[0], 0) + 1
            continue
        if v[0] == 'harness':
            harness += 1
            ctx.extra.setdefault('harness_anomalies', []).append({'case': {k: case.get(k) for k in ('kind', 'target', 'events', 'pipe')}, 'why': v[1]})
            continue
        where = ('%s@%s' % (ev['action'], land.site_sig(site, REPO))) if ev else ('forced-terminate' if case.get('forced_terminate') else 'no-fault')
        sig = 'LAND/%s/%s/%s-pipe%s/%s/%s' % (case['kind'], case['target'], case.get('pipe'), '+live-consumer' if case.get('consume') == 'live' else '', where, v[0])
        ctx.violation(sig, {k: case.get(k) for k in ('kind', 'target', 'targs', 'inputs', 'close', 'pipe', 'consume', 'forced_terminate', 'events', '_site', 'post_call')},
                      {'results': obs.get('results'), 'stream_end': obs.get('stream_end'), 'after_end': obs.get('after_end')},
                      'a prefix of the expected results, then the end of the stream', engine='LAND')
    for b, s in list(zip(bases, scs))[:4]:
        ctx.sample({'scenario': {k: s[k] for k in ('kind', 'target', 'inputs', 'pipe')}, 'landing_points_on_base_path': b.get('events_total')})
    if harness > max(3, len(runs) // 50):
        ctx.selftest_fail('%d harness anomalies' % harness)
    ctx.extra['landing_runs'] = len(runs)


def replay(ctx, rec):
    c = rec['case']
    case = {k: v for k, v in c.items() if v is not None and k != '_site'}
    obs = land.run_cases([case], case_timeout=90)[0]
    ctx.count()
    v = judge(case, obs)
    print('replayed:', {k: obs.get(k) for k in ('death', 'results', 'stream_end', 'after_end', 'landed', 'stage')})
    print('verdict:', v)
    if v and v[0] not in ('harness', 'beyond-end', 'not-dead'):
        ctx.violation(rec['signature'], c, {'results': obs.get('results'), 'stream_end': obs.get('stream_end')}, rec.get('expected'), engine='LAND')
