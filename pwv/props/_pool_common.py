"""Shared driver for C07/C08: box tables, sharded exploration, conformance replay."""
import os
import json
import itertools
import multiprocessing

from .. import poolx


def boxes(quick):
    out = []
    W = (1, 2, 3)
    for workers in W:
        for ninputs in range(0, 6 if quick else 7):
            for extra in ((0, 1) if quick else (0, 1, 2)):
                for deaths in range(0, 3 if quick else 4):
                    if deaths > workers + 1:
                        continue
                    for retry in (True, False):
                        cfg = {'workers': workers, 'inputs': list(range(1, ninputs + 1)), 'extra': extra, 'deaths': deaths,
                               'retry': retry}
                        size = workers * 10 + ninputs + extra * 3 + deaths * 4
                        big = workers == 3 and ninputs >= 5 and deaths >= 2
                        if big and not retry:
                            continue
                        if quick and workers == 3 and (ninputs > 4 or deaths > 1 or extra > 1 or ninputs + extra + deaths > 5):
                            continue
                        out.append(cfg)
                        # option variants on medium boxes
                        if ninputs in (3, 5) and deaths in (1, 2) and extra == 1 and workers <= 2:
                            out.append(dict(cfg, return_results=False))
                            out.append(dict(cfg, source='callable'))
                            out.append(dict(cfg, enqueue_fn='always'))
                            out.append(dict(cfg, torn=True))
                            out.append(dict(cfg, enqueue_fn='raise-once'))
                            if workers >= 2:
                                out.append(dict(cfg, immortal=[1]))
                                for efn in ('w0odd', 'w0all', 'parity'):
                                    out.append(dict(cfg, enqueue_fn=efn, immortal=[1] if efn != 'parity' else [0, 1]))
                        if workers == 3 and ninputs in (3, 4) and deaths == 1 and extra <= 1:
                            out.append(dict(cfg, enqueue_fn='w0odd', immortal=[1]))
                            out.append(dict(cfg, torn=True))
                        if ninputs in (3, 4) and deaths <= 1 and extra <= 1:
                            out.append(dict(cfg, poison=[2]))
                            if ninputs == 4:
                                out.append(dict(cfg, poison=[1, 3]))
    return out


def _explore_box(args):
    cfg, perms, prop, max_execs = args
    viol = {}
    outcomes = {}

    def on_exec(box, out, choices):
        k = out.kind
        if out.kind == 'internal-error':
            k += ':' + out.type
        outcomes[k] = outcomes.get(k, 0) + 1
        for (p, sig, exp) in poolx.judge(box, out):
            if sig not in viol:
                viol[sig] = {'prop': p, 'count': 0, 'choices': list(choices), 'observed': obs(out), 'expected': exp,
                             'log': [list(map(str, l)) for l in box.log][-30:]}
            viol[sig]['count'] += 1
            if len(choices) < len(viol[sig]['choices']):
                viol[sig]['choices'] = list(choices)
                viol[sig]['observed'] = obs(out)
    st = poolx.explore(cfg, on_exec, perms=perms, max_execs=max_execs)
    return cfg, st, outcomes, viol


def obs(out):
    d = {k: v for k, v in out.__dict__.items() if k != 'pool'}
    return d


def run_boxes(ctx, prop):
    quick = ctx.quick
    bx = boxes(quick)
    if ctx.seed:
        import random
        random.Random(ctx.seed).shuffle(bx)   # order only; every box is explored
    perms = not quick
    max_execs = 400000 if quick else 3000000
    jobs = [(cfg, perms and cfg['workers'] <= 2 or (perms and len(cfg['inputs']) <= 4), prop, max_execs) for cfg in bx]
    # biggest first for load balance
    jobs.sort(key=lambda j: -(j[0]['workers'] * 100 + len(j[0]['inputs']) * 10 + j[0]['deaths'] * 5 + j[0]['extra']))
    mpctx = multiprocessing.get_context('fork')
    total = {'states': 0, 'transitions': 0, 'executions': 0, 'pruned': 0}
    allv = {}
    per_box_outcomes = 0
    with mpctx.Pool(min(16, os.cpu_count() or 4)) as pool:
        for cfg, st, outcomes, viol in pool.imap_unordered(_explore_box, jobs, chunksize=1):
            for k in total:
                total[k] += st[k]
            if st.get('capped'):
                ctx.cap('box %s stopped after %d executions' % (json.dumps(cfg), st['executions']))
            ctx.count(st['executions'])
            ctx.distinct(json.dumps(cfg, sort_keys=True))
            for k, n in outcomes.items():
                ctx.outcomes[k] = ctx.outcomes.get(k, 0) + n
            if len(outcomes) > 1:
                per_box_outcomes += 1
            if len(ctx.samples) < 4 and st['states'] > 50:
                ctx.sample({'box': cfg, 'states': st['states'], 'transitions': st['transitions'], 'executions': st['executions'],
                            'outcomes': outcomes})
            for sig, v in viol.items():
                key = (v['prop'], sig)
                if key not in allv or len(v['choices']) < len(allv[key][1]['choices']):
                    cnt = v['count'] + (allv[key][1]['count'] if key in allv else 0)
                    allv[key] = (cfg, v)
                    v['count'] = cnt
                else:
                    allv[key][1]['count'] += v['count']
    ctx.states = total['states']
    ctx.transitions = total['transitions']
    ctx.extra['boxes'] = len(bx)
    ctx.extra['boxes_with_more_than_one_outcome'] = per_box_outcomes
    ctx.extra['executions_pruned_at_seen_state'] = total['pruned']
    if per_box_outcomes == 0:
        ctx.selftest_fail('no box produced more than one outcome: nothing collided')
    return allv


RULE = ('one case = one complete execution of the real Pool.run under a sequence of environment choices; boxes = (workers, inputs, '
        'extra pending, deaths, retry, return_results, source kind, enqueue_fn, poison set, immortal set); every box is explored '
        'exhaustively (DFS over choice prefixes, states deduplicated at connection.wait); distinct_nontrivial counts boxes')


def run_property(ctx, prop):
    ctx.rule = RULE
    ctx.assumptions = ['scripted workers model the persistent worker classes (validated by trace replay on real workers)',
                       'worker steps commute with pool actions between two observations of that worker (partial-order argument in DESIGN.md 2.3)',
                       'accept-and-drop enqueues happen only in the dying window of a graceful death']
    allv = run_boxes(ctx, prop)
    # conformance replay of explored traces against real workers
    try:
        from .. import poolreal
        n_ok, n_na, bad = poolreal.conformance(ctx)
        ctx.traces_validated = n_ok
        ctx.extra['conformance'] = {'replayed_ok': n_ok, 'not_applicable': n_na, 'mismatches': bad[:5]}
        if bad:
            ctx.selftest_fail('conformance replay on real workers disagrees with the model for %d trace(s): %s' % (len(bad), bad[0]))
    except ImportError:
        ctx.extra['conformance'] = 'replayer not built yet'
    for (p, sig), (cfg, v) in sorted(allv.items()):
        if p != prop:
            ctx.extra.setdefault('other_property_signatures', {})[sig] = v['count']
            continue
        case = {'box': cfg, 'choices': v['choices'], 'log': v['log'], 'executions_with_this_signature': v['count']}
        ctx.violation(sig, case, v['observed'], v['expected'], engine='POOLX')


def replay_property(ctx, prop, rec):
    c = rec['case']
    box, out, trace = poolx.replay_choices(c['box'], c['choices'], perms=False)
    ctx.count()
    ctx.states = ctx.transitions = 1
    if out is None:
        print('replay pruned?')
        return
    print('replayed: outcome', obs(out))
    for l in box.log:
        print('   ', l)
    for (p, sig, exp) in poolx.judge(box, out):
        if p == prop:
            ctx.violation(sig, c, obs(out), exp, engine='POOLX')
