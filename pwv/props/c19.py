"""C19 - active_children() tracks exactly the live workers (SEQ + SCHED)."""
import gc
import time
import weakref
import threading

from .. import seq
from ..sched import Sched, CoopLock, Deadlock, Divergence

LEVEL = 'model_checking'
ENGINE = 'SCHED+SEQ'
TECHNIQUE = 'stateless model checking of the real registry code: every interleaving of 2-3 threads up to a preemption bound (line-level switch points, cooperative lock), plus every operation history up to a depth bound against a set model, listed from the creating thread, from a freshly started one and through subclasses'
LEVEL_TEXT = ('SCHED: all interleavings of active_children() with concurrent worker creation/registration and completion up to the preemption bound, each run to completion, oracle = snapshot consistency during the call and exact agreement afterwards; SEQ: every history of create/finish/terminate/restart/list operations up to the depth bound on real thread workers (thorough: all six classes) against a set model; a 300-cycle history for retention')
LEVEL_NOTE = 'switch points are line events in pyworkers/worker.py and lock operations; the GIL makes finer interleavings unobservable for this code; states = distinct (abstract state) reached by histories plus distinct schedules; histories on the process/remote classes are shorter (depth 3, thorough 4)'


class Flag:
    def __init__(self):
        self.v = False


def spin(flag):
    while not flag.v:
        time.sleep(0.0005)
    return 1


def ident(x=0):
    return x


def reset_registry():
    from pyworkers.worker import Worker
    Worker._active_children = type(Worker._active_children)()


# ---- SEQ ------------------------------------------------------------------------------------------------------
def model_enabled(maxw):
    def enabled(st):
        ops = ['list']
        if len(st) < maxw:
            ops += ['createT', 'createT0', 'createPT']
        for i, (kind, alive) in enumerate(st):
            if alive:
                ops.append('finish:%d' % i)
            ops.append('terminate:%d' % i)
            if kind == 'PT':
                ops.append('restart:%d' % i)
        return ops
    return enabled


def model_step(st, op):
    st = list(st)
    if op == 'createT':
        st.append(('T', True))
    elif op == 'createT0':
        st.append(('T0', False))
    elif op == 'createPT':
        st.append(('PT', True))
    elif op.startswith('finish:') or op.startswith('terminate:'):
        i = int(op.split(':')[1])
        st[i] = (st[i][0], False)
    elif op.startswith('restart:'):
        i = int(op.split(':')[1])
        st[i] = (st[i][0], True)
    return tuple(st)


def list_from(caller):
    from pyworkers.worker import Worker
    if caller == 'creator':
        return list(Worker.active_children())
    if caller == 'via-subclass':
        # the listing is a static method: asked through a subclass it is the same listing
        from pyworkers.thread import ThreadWorker
        return list(ThreadWorker.active_children())
    if caller == 'via-persistent-subclass':
        from pyworkers.persistent_thread import PersistentThreadWorker
        return list(PersistentThreadWorker.active_children())
    box = []
    t = threading.Thread(target=lambda: box.append(list(Worker.active_children())))
    t.start()
    t.join(20)
    if not box:
        raise RuntimeError('active_children() did not return in a fresh thread')
    return box[0]


def run_history(hist, check_each):
    """Executes the history on real workers. Returns None or a (signature, observed) violation."""
    from pyworkers.worker import Worker
    from pyworkers.thread import ThreadWorker
    from pyworkers.persistent_thread import PersistentThreadWorker
    reset_registry()
    ws = []
    flags = []
    st = ()
    bad = None
    try:
        for k, op in enumerate(hist):
            if op == 'createT':
                f = Flag()
                ws.append(ThreadWorker(spin, args=[f]))
                flags.append(f)
            elif op == 'createT0':
                ws.append(ThreadWorker(spin, args=[Flag()], run=False))
                flags.append(None)
            elif op == 'createPT':
                ws.append(PersistentThreadWorker(ident))
                flags.append(None)
            elif op.startswith('finish:'):
                i = int(op.split(':')[1])
                if flags[i] is not None:
                    flags[i].v = True
                if not ws[i].wait(5):
                    return ('SEQ/harness/worker-did-not-finish', op)
            elif op.startswith('terminate:'):
                i = int(op.split(':')[1])
                if not ws[i].terminate(5):
                    return ('SEQ/harness/worker-did-not-terminate', op)
            elif op.startswith('restart:'):
                i = int(op.split(':')[1])
                ws[i].restart()
            st = model_step(st, op) if op != 'list' else st
            if op == 'list' or check_each or k == len(hist) - 1:
                want = [w for w, (kind, alive) in zip(ws, st) if alive]
                wi = sorted(ws.index(w) for w in want)
                # the caller is part of the input: the thread which created the workers, and a thread started just now (the
                # operating system hands it the identifier of a thread worker that has finished, if there is one)
                # (a listing prunes: after an explicit "list" step the creator looks first, otherwise the fresh thread does)
                for caller in (('creator', 'fresh-thread', 'via-subclass', 'via-persistent-subclass') if op == 'list' else ('via-subclass', 'fresh-thread', 'creator')):
                    got = list_from(caller)
                    gi = sorted(ws.index(g) if g in ws else -1 for g in got)
                    if gi != wi:
                        what = 'duplicate' if len(set(gi)) != len(gi) else ('dead-worker-yielded' if set(gi) - set(wi) else 'live-worker-missing')
                        kinds = '+'.join(sorted(set(st[i][0] for i in (set(gi) ^ set(wi)) if i >= 0)))
                        after = 'after-restart' if any(o.startswith('restart') for o in hist[:k + 1]) else 'no-restart'
                        return ('SEQ/%s/%s/%s%s' % (what, kinds, after, '' if caller == 'creator' else '/listed-from-' + caller),
                                {'yielded': gi, 'alive': wi, 'at_step': k, 'caller': caller})
        return None
    finally:
        for f in flags:
            if f is not None:
                f.v = True
        for w in ws:
            try:
                if w.is_alive():
                    w.terminate(2)
            except Exception:  # noqa
                pass


def retention(ctx, cycles):
    from pyworkers.worker import Worker
    from pyworkers.thread import ThreadWorker

    class Res:
        pass
    reset_registry()
    refs = []
    for i in range(cycles):
        w = ThreadWorker(lambda: Res())
        w.wait()
        refs.append((weakref.ref(w), weakref.ref(w.result)))
        if i % 50 == 7:
            list(Worker.active_children())
        del w
    left = list_from('fresh-thread') + list(Worker.active_children())
    registry = len(Worker._active_children)
    gc.collect()
    alive_refs = sum(1 for a, b in refs if a() is not None or b() is not None)
    ctx.count()
    ctx.distinct(('retention', cycles))
    ctx.outcome('retention:%d-yielded:%d-retained' % (len(left), alive_refs))
    if left or alive_refs or registry:
        ctx.violation('SEQ/retention/dead-workers-retained', {'cycles': cycles},
                      {'yielded_after': len(left), 'objects_still_referenced': alive_refs, 'registry_len': registry},
                      'nothing yielded, nothing retained', engine='SEQ')


def autoclose(ctx):
    from pyworkers.worker import Worker, autoclose_active_children
    from pyworkers.thread import ThreadWorker
    from pyworkers.persistent_thread import PersistentThreadWorker
    class SlowCleanupT(ThreadWorker):
        """The clean-up hook of this worker takes a while: the worker is alive until its thread has really gone."""
        def _cleanup(self):
            time.sleep(0.3)
            return super()._cleanup()

    for shape in (('T',), ('PT',), ('T', 'PT'), ('T', 'T', 'PT'), ('T0', 'T'), (), ('Tslow',), ('T', 'Tslow')):
        for exc in (False, True, 'KeyboardInterrupt', 'SystemExit', 'GeneratorExit'):
            reset_registry()
            ws = []
            flags = []
            try:
                with autoclose_active_children():
                    for s in shape:
                        if s == 'T':
                            f = Flag()
                            flags.append(f)
                            ws.append(ThreadWorker(spin, args=[f]))
                        elif s == 'T0':
                            ws.append(ThreadWorker(spin, args=[Flag()], run=False))
                        elif s == 'Tslow':
                            f = Flag()
                            flags.append(f)
                            ws.append(SlowCleanupT(spin, args=[f]))
                        else:
                            ws.append(PersistentThreadWorker(ident))
                    list(Worker.active_children())
                    if exc is True:
                        raise KeyError('body fails')
                    if exc:
                        # the block is left by something which is not an Exception (Ctrl-C, sys.exit())
                        raise {'KeyboardInterrupt': KeyboardInterrupt, 'SystemExit': SystemExit, 'GeneratorExit': GeneratorExit}[exc]()
            except (KeyError, KeyboardInterrupt, SystemExit, GeneratorExit):
                pass
            # first what the library says (the listing), then the threads themselves: a thread found running afterwards was running
            # when the listing was made
            listed = list(Worker.active_children())
            running = [i for i, w in enumerate(ws) if getattr(w, '_started', False) and w._child.is_alive()]
            dropped = [i for i in running if not any(ws[i] is c for c in listed)]
            if dropped:
                ctx.violation('SEQ/autoclose/worker-with-a-running-thread-not-listed/%s' % '+'.join(shape), {'workers': shape, 'exception_in_body': exc},
                              {'running_but_not_listed': dropped}, 'a worker whose thread is running is alive', engine='SEQ')
            # (a worker whose clean-up hook outlasts the fixed grace period of the block may still be finishing: only the listing is judged)
            alive = [i for i in running if shape[i] != 'Tslow']
            ctx.count()
            ctx.distinct(('autoclose', shape, exc))
            ctx.outcome('autoclose:%d-left' % len(alive))
            for f in flags:
                f.v = True
            if alive:
                ctx.violation('SEQ/autoclose/live-worker-left/%s' % '+'.join(shape), {'workers': shape, 'exception_in_body': exc},
                              {'alive_after_block': alive}, 'no live worker after the block', engine='SEQ')


def block_for_ever(flagfile):
    import os
    while not os.path.exists(flagfile):
        time.sleep(0.002)
    return 7


def fire_and_forget(ctx, kinds):
    """A live worker the program keeps no reference to is still a live worker: it must be listed (and auto-closed)."""
    import os
    import tempfile
    from pyworkers.worker import Worker, autoclose_active_children
    from pyworkers.thread import ThreadWorker
    from pyworkers.process import ProcessWorker
    from pyworkers.persistent_process import PersistentProcessWorker
    classes = {'T': ThreadWorker, 'P': ProcessWorker, 'PP': PersistentProcessWorker}
    for kind in kinds:
        reset_registry()
        d = tempfile.mkdtemp(prefix='pwv_ff_')
        flag = os.path.join(d, 'go')

        def start():
            if kind == 'PP':
                w = classes[kind](ident)
            else:
                w = classes[kind](block_for_ever, args=[flag])
            return w.pid, w.tid, weakref.ref(w)
        pid, tid, ref = start()
        gc.collect()
        listed = [(w.pid, w.tid) for w in Worker.active_children()]
        ok_listed = (pid, tid) in listed
        try:
            with autoclose_active_children():
                pid2, tid2, ref2 = start()
                gc.collect()
        finally:
            pass
        time.sleep(0.05)

        def gone(p, t):
            if kind == 'T':
                return not any(th.native_id == t for th in threading.enumerate())
            try:
                os.kill(p, 0)
            except ProcessLookupError:
                return True
            try:
                with open('/proc/%d/stat' % p) as f:
                    return f.read().split(')')[-1].split()[0] == 'Z'
            except FileNotFoundError:
                return True
        left = [x for x in ((pid, tid), (pid2, tid2)) if not gone(*x)]
        open(flag, 'w').write('x')
        for p, t in left:
            if kind != 'T':
                try:
                    os.kill(p, 9)
                except ProcessLookupError:
                    pass
        import shutil
        time.sleep(0.05)
        shutil.rmtree(d, ignore_errors=True)
        ctx.count()
        ctx.distinct(('fire-and-forget', kind))
        ctx.outcome('fire-and-forget:%s:%s' % (kind, 'ok' if ok_listed and not left else 'bad'))
        if not ok_listed:
            ctx.violation('SEQ/live-worker-missing/%s/unreferenced' % kind, {'kind': kind, 'scenario': 'start a worker, keep no reference, gc.collect(), list'},
                          {'listed': listed, 'expected_pid_tid': [pid, tid]}, 'the live worker is listed', engine='SEQ')
        elif left:
            ctx.violation('SEQ/autoclose/live-worker-left/%s/unreferenced' % kind, {'kind': kind}, {'left': left}, 'no live worker after the block', engine='SEQ')


# ---- SEQ on process / remote kinds (driver subprocess) ---------------------------------------------------------------------
def allkind_histories(quick):
    """Histories over {create K (run / not run), finish i, terminate i, restart i, list} for the process and remote classes."""
    import itertools
    kinds = ('P', 'R', 'PP', 'PR')
    out = []
    ops = ['create', 'create0', 'finish', 'terminate', 'restart', 'list']
    depth = 3 if quick else 4
    for kind in kinds:
        pers = len(kind) == 2
        for L in range(1, depth + 1):
            for h in itertools.product(ops, repeat=L):
                if h[0] not in ('create', 'create0'):
                    continue
                if not pers and 'restart' in h:
                    continue
                # every op after the first refers to worker 0 or creates another one (max 2 workers)
                if sum(1 for o in h if o.startswith('create')) > 2:
                    continue
                out.append((kind, h))
    return out


def allkind_script(kind, h):
    pers = len(kind) == 2
    sc = ([{'op': 'heal_server'}] if kind in ('R', 'PR') else []) + [{'op': 'reset_registry'}]
    model = []      # alive flags
    runflag = []
    n = 0
    for o in h:
        if o in ('create', 'create0'):
            c = {'op': 'create', 'var': 'w%d' % n, 'kind': kind, 'target': 'slow_echo' if pers else 'cooperative'}
            if o == 'create0':
                c['run'] = False
            sc.append(c)
            model.append(o == 'create')
            runflag.append(o == 'create')
            n += 1
        elif o == 'finish':
            if pers:
                sc.append({'op': 'call', 'var': 'w0', 'method': 'wait', 'args': [10]})
            else:
                sc.append({'op': 'call', 'var': 'w0', 'method': 'terminate', 'args': [5]})
            model[0] = False
        elif o == 'terminate':
            sc.append({'op': 'call', 'var': 'w0', 'method': 'terminate', 'args': [5]})
            model[0] = False
        elif o == 'restart':
            sc.append({'op': 'call', 'var': 'w0', 'method': 'restart', 'kwargs': {'timeout': 2}, 'timeout': 30})
            model[0] = runflag[0]       # a worker created with run=False is restarted with run=False
        elif o == 'list':
            sc.append({'op': 'active_children', 'expect': sorted('w%d' % i for i, a in enumerate(model) if a)})
    sc.append({'op': 'active_children', 'expect': sorted('w%d' % i for i, a in enumerate(model) if a)})
    return sc


def run_allkinds(ctx):
    from .. import land
    hs = allkind_histories(ctx.quick)
    jobs = [{'script': allkind_script(k, h)} for k, h in hs]
    res = land.run_cases(jobs, case_timeout=120)
    for (kind, h), job, obs in zip(hs, jobs, res):
        ctx.count()
        ctx.distinct(('allkinds', kind) + tuple(h))
        if obs.get('driver_hang') or obs.get('driver_error'):
            ctx.extra.setdefault('harness_anomalies', []).append({'kind': kind, 'h': list(h)})
            continue
        bad = None
        for op, st in zip(job['script'], obs['steps']):
            if st.get('harness_error') or st.get('hang') or ('exc' in st and op['op'] != 'active_children'):
                bad = ('harness', {'op': op, 'st': st})
                break
            if op['op'] == 'active_children' and [x for x in (st.get('ret') or []) if x != 'foreign:RemoteServerProcess'] != op['expect']:
                got = [x for x in (st.get('ret') or []) if x != 'foreign:RemoteServerProcess']
                what = 'dead-worker-yielded' if set(got) - set(op['expect']) else 'live-worker-missing'
                after = 'after-restart' if 'restart' in h else 'no-restart'
                bad = ('SEQ/%s/%s/%s' % (what, kind, after), {'yielded': st.get('ret', st), 'alive': op['expect']})
                break
        ctx.outcome('seq-%s:%s' % (kind, 'ok' if not bad else bad[0]))
        if bad and bad[0] != 'harness':
            ctx.violation(bad[0], {'kind': kind, 'history': list(h)}, bad[1], 'yielded set == live workers', engine='SEQ')
        elif bad:
            ctx.extra.setdefault('harness_anomalies', []).append({'kind': kind, 'h': list(h), 'why': str(bad[1])[:200]})
    ctx.extra['allkind_histories'] = len(hs)
    ctx.transitions += len(hs)


# ---- SCHED ----------------------------------------------------------------------------------------------------
def sched_scenarios():
    """Each scenario: (name, setup) where setup() -> (bodies, finish)."""
    from pyworkers.worker import Worker
    from pyworkers.thread import ThreadWorker

    def mk(n_pre_alive, n_pre_dead, lister_threads, creators, finishers):
        def setup():
            reset_registry()
            pre = []
            flags = []
            for _ in range(n_pre_alive + n_pre_dead):
                f = Flag()
                pre.append(ThreadWorker(spin, args=[f]))
                flags.append(f)
            for i in range(n_pre_dead):
                flags[n_pre_alive + i].v = True
                pre[n_pre_alive + i].wait(5)
            created = []
            cflags = []
            listed = []
            marks = {}

            def lister(k):
                def body():
                    marks[('ls', k)] = (len(created), [w for w in pre if not flags[pre.index(w)].v])
                    out = list(Worker.active_children())
                    listed.append((k, out, len(created)))
                    return out
                return body

            def creator(k):
                def body():
                    f = Flag()
                    cflags.append(f)
                    w = ThreadWorker(spin, args=[f])
                    created.append(w)
                    return w
                return body

            def finisher(i):
                def body():
                    flags[i].v = True
                    pre[i].wait(5)
                    return True
                return body
            bodies = [lister(k) for k in range(lister_threads)] + [creator(k) for k in range(creators)] + [finisher(i) for i in range(finishers)]

            def finish(ex):
                from pyworkers.worker import Worker as W
                obs = {'errors': [type(e).__name__ for e in ex.errors if e is not None]}
                allw = pre + created
                final = list(W.active_children())
                alive = [w for w in allw if getattr(w, '_started', False) and w._child.is_alive()]
                obs['final_missing'] = sorted(allw.index(w) for w in alive if not any(w is g for g in final))
                obs['final_extra'] = sorted(allw.index(g) if g in allw else -1 for g in final if not any(g is w for w in alive))
                obs['final_dups'] = len(final) - len(set(map(id, final)))
                # per listing call: no duplicates, nothing foreign, every worker alive over the whole run and registered before is there
                always_alive = [w for i, w in enumerate(pre) if i >= finishers and i < n_pre_alive]
                calls = []
                for k, out, ncreated_at_end in listed:
                    dup = len(out) - len(set(map(id, out)))
                    foreign = sum(1 for g in out if not any(g is w for w in allw))
                    missing = sum(1 for w in always_alive if not any(w is g for g in out))
                    calls.append((dup, foreign, missing))
                obs['calls'] = calls
                obs['yielded'] = [sorted(allw.index(g) if g in allw else -1 for g in out) for k, out, _ in sorted(listed, key=lambda t: t[0])]
                for f in flags + cflags:
                    f.v = True
                for w in allw:
                    w.wait(5)
                return obs
            return bodies, finish
        return setup
    return [
        ('list||create', mk(1, 1, 1, 1, 0)),
        ('list||finish', mk(2, 0, 1, 0, 1)),
        ('list||list||create', mk(1, 1, 2, 1, 0)),
        ('list||create||finish', mk(2, 1, 1, 1, 1)),
        ('create||create||list', mk(0, 1, 1, 2, 0)),
    ]


def judge_sched(obs):
    if obs['errors']:
        return 'SCHED/exception/' + '+'.join(sorted(set(obs['errors'])))
    if obs['final_missing']:
        return 'SCHED/live-worker-lost-from-registry'
    if obs['final_extra']:
        return 'SCHED/dead-worker-still-yielded'
    if obs['final_dups']:
        return 'SCHED/duplicate-in-registry'
    for dup, foreign, missing in obs['calls']:
        if dup:
            return 'SCHED/duplicate-yielded'
        if foreign:
            return 'SCHED/foreign-object-yielded'
        if missing:
            return 'SCHED/always-alive-worker-not-yielded'
    return None


def _sched_job(job):
    """One (scenario, preemption bound) exploration in a forked worker; returns plain data."""
    import logging
    logging.disable(logging.CRITICAL)
    from pyworkers.worker import Worker
    idx, b, cap = job
    name, setup = sched_scenarios()[idx]
    sched = Sched(files=('pyworkers/worker.py',))
    real_lock = Worker._children_lock
    out = {'name': name, 'bound': b, 'outcomes': {}, 'viol': {}, 'violn': {}, 'transitions': 0, 'obs': set(), 'selftest': None, 'n': 0}
    last = [None]

    def make():
        Worker._children_lock = CoopLock(sched)
        return setup()

    def on_exec(ex, obs, choices):
        out['obs'].add(repr(sorted(obs.items())))
        out['n'] += 1
        out['transitions'] += len(ex.trace)
        last[0] = list(choices)
        sig = judge_sched(obs)
        k = 'sched:%s:%s' % (name, sig or 'ok')
        out['outcomes'][k] = out['outcomes'].get(k, 0) + 1
        if sig:
            sig = sig + '/' + name
            out['violn'][sig] = out['violn'].get(sig, 0) + 1
            if sig not in out['viol']:
                out['viol'][sig] = ({'scenario': name, 'schedule': list(choices), 'preemptions': ex.preemptions, 'switches': ex.switches[:20]}, obs)
    try:
        try:
            st = sched.explore(make, b, on_exec, max_execs=cap)
        except Deadlock as e:
            out['deadlock'] = str(e)
            st = {'executions': out['n'], 'capped': False}
        out['stats'] = st
        # determinism self-test: replay one recorded schedule twice
        if last[0] is not None:
            o = []
            for _ in range(2):
                bodies, finish = make()
                ex = sched.run(bodies, list(last[0]))
                o.append(repr(sorted(finish(ex).items())))
            out['selftest'] = (o[0] == o[1])
    finally:
        Worker._children_lock = real_lock
        sched.uninstall()
    out['obs'] = len(out['obs'])
    return out


def run_sched(ctx):
    import multiprocessing
    three = ('list||list||create', 'list||create||finish', 'create||create||list')
    names = [n for n, _ in sched_scenarios()]
    jobs = []
    for i, name in enumerate(names):
        if ctx.quick:
            jobs.append((i, 1 if name in three else 2, 6000))
        else:
            # two-thread scenarios up to 3 preemptions, three-thread scenarios up to 2 (both complete, no cap reached)
            jobs.append((i, 2 if name in three else 3, 200000))
    total = 0
    nsched = 0
    with multiprocessing.get_context('fork').Pool(min(len(jobs), 8)) as pool:
        results = list(pool.imap_unordered(_sched_job, jobs))
    for out in sorted(results, key=lambda o: names.index(o['name'])):
        name, b, st = out['name'], out['bound'], out['stats']
        ctx.count(out['n'])
        ctx.transitions += out['transitions']
        for k, v in out['outcomes'].items():
            ctx.outcomes[k] = ctx.outcomes.get(k, 0) + v
        for sig, (case, obs) in out['viol'].items():
            for _ in range(out['violn'][sig]):
                ctx.violation(sig, case, obs, 'registry exact under every interleaving', engine='SCHED')
        if out.get('deadlock'):
            ctx.violation('SCHED/deadlock/' + name, {'scenario': name}, out['deadlock'], 'no deadlock', engine='SCHED')
        if st['capped']:
            ctx.cap('SCHED scenario %s stopped after %d schedules (bound %d)' % (name, st['executions'], b))
        if out['selftest'] is False:
            ctx.selftest_fail('schedule replay is not deterministic for %s' % name)
        total += st['executions']
        nsched += st['executions']
        ctx.sample({'engine': 'SCHED', 'scenario': name, 'preemption_bound': b, 'schedules': st['executions'], 'distinct_observations': out['obs']})
        ctx.distinct(('sched', name, b))
    ctx.distinct_extra += max(0, nsched - len(results))      # every explored schedule is distinct by construction (DFS over choice prefixes)
    ctx.states += nsched
    ctx.extra['sched_schedules'] = total
    ctx.extra['sched_preemption_bounds'] = {o['name']: o['bound'] for o in results}


def _seq_chunk(hists):
    import logging
    logging.disable(logging.CRITICAL)
    from .. import graph as G
    col = G.Collector()
    for hist in hists:
        v = run_history(hist, check_each=False)
        col.count()
        col.distinct(('h',) + hist)
        col.outcome('seq:' + (v[0] if v else 'ok'))
        if v:
            col.violation(v[0], {'history': list(hist)}, v[1], 'yielded set == live workers', engine='SEQ')
    return col


def run(ctx):
    import logging
    logging.disable(logging.CRITICAL)
    ctx.rule = ('SEQ: every history over {createT, createT(not run), createPT, finish i, terminate i, restart i, list} up to the full depth, '
                'then extended on new abstract states, executed on real workers, registry compared with the set model after the listed '
                'steps; SCHED: every schedule of the scenario threads within the preemption bound; distinct = history or (scenario,bound)')
    ctx.assumptions = ['thread scheduling is observable only at line granularity in worker.py and at lock operations (GIL)',
                       'process/remote kinds join the histories only in the thorough tier']
    only = getattr(ctx, 'only', None)
    if only in (None, 'seq'):
        d_full, d_max, maxw = (5, 8, 3) if ctx.quick else (6, 9, 3)
        from .. import graph as G
        states = set()
        hists = []
        for hist, st in seq.histories((), model_enabled(maxw), model_step, d_full, d_max):
            if not hist:
                continue
            hists.append(hist)
            states.add(st)
        n = len(hists)
        ctx.sample({'engine': 'SEQ', 'history': list(hists[len(hists) // 2])})
        ctx.sample({'engine': 'SEQ', 'history': list(hists[-1])})
        for col in G.parallel_chunks(_seq_chunk, hists, chunk=max(50, len(hists) // 64)):
            G.merge_into(ctx, col)
        ctx.states += len(states)
        ctx.transitions += n
        ctx.extra['seq_histories'] = n
        ctx.extra['seq_depth_full'] = d_full
        ctx.extra['seq_depth_max'] = d_max
        retention(ctx, 300)
        autoclose(ctx)
        fire_and_forget(ctx, ('T', 'P') if ctx.quick else ('T', 'P', 'PP'))
        run_allkinds(ctx)
    if only in (None, 'sched'):
        run_sched(ctx)
    ctx.traces_validated = ctx.evaluations   # every schedule/history is executed on the implementation itself


def replay(ctx, rec):
    import logging
    logging.disable(logging.CRITICAL)
    c = rec['case']
    if 'history' in c:
        v = run_history(tuple(c['history']), check_each=False)
        ctx.count()
        print('replayed history:', v)
        if v:
            ctx.violation(v[0], c, v[1], 'yielded set == live workers', engine='SEQ')
    else:
        from pyworkers.worker import Worker
        sched = Sched(files=('pyworkers/worker.py',))
        real = Worker._children_lock
        try:
            for name, setup in sched_scenarios():
                if name == c['scenario']:
                    Worker._children_lock = CoopLock(sched)
                    bodies, finish = setup()
                    ex = sched.run(bodies, c['schedule'])
                    obs = finish(ex)
                    sig = judge_sched(obs)
                    print('replayed schedule:', obs, sig)
                    ctx.count()
                    if sig:
                        ctx.violation(sig + '/' + name, c, obs, 'registry exact', engine='SCHED')
        finally:
            Worker._children_lock = real
            sched.uninstall()
    ctx.states = ctx.transitions = 1
