"""C17 - restart() always yields a fresh, equivalent, live worker (SEQ)."""
import os
import itertools

from .. import land

LEVEL = 'exploration'
ENGINE = 'SEQ'
TECHNIQUE = 'exhaustive product of (persistent class, state at restart, number of consecutive restarts, results pipe, restart arguments) executed as operation histories on real workers and checked against a reference model of a fresh worker'
LEVEL_TEXT = ('every combination of the bounded product is run on real workers: 3 classes x 16 states at restart (never used, holding the interpreter lock in a C call, SIGSTOPped, dying on its own, finished but lingering, uncooperative and ignoring SIGTERM, results unread, large results unread, inputs queued, closed, died by exception, killed, uncooperative, cooperative with a slow clean-up, killed with a parked forwarder, killed with a slow consumer) x 1-3 restarts x default/supplied results pipe x restart arguments; oracle: live worker, same name/userid/target/defaults, new identity for process/remote kinds, old child gone, the new stream yields exactly the post-restart results in order, result counts post-restart enqueues, raises (and keeps the old child) when the old incarnation cannot be stopped')
LEVEL_NOTE = 'the state alphabet is finite and hand-picked from the statement; timing inside a state (how far the old child got) is whatever the OS does, the oracle does not depend on it'

STATES = ['fresh', 'unread', 'big-unread', 'queued', 'closed', 'died', 'dying', 'lingering', 'stubborn-sigign', 'killed', 'stubborn', 'slow-unwind', 'killed+parked', 'killed+slow-consumer', 'gil-hog', 'stopped']


def prep(state, kind, tmp):
    """ops bringing worker 'w' into the state."""
    E = lambda x: {'op': 'call', 'var': 'w', 'method': 'enqueue', 'args': [x]}  # noqa
    if state == 'fresh':
        return []
    if state == 'unread':
        return [E('old1'), E('old2'), {'op': 'sleep', 's': 0.35}]
    if state == 'big-unread':
        return [E('old1'), E('old2'), {'op': 'sleep', 's': 0.4}]
    if state == 'queued':
        return [E('old1'), E('old2'), E('old3')]
    if state == 'closed':
        return [E('old1'), {'op': 'call', 'var': 'w', 'method': 'close'}]
    if state == 'died':
        return [E('old1'), E('POISON'), {'op': 'sleep', 's': 0.4}]
    if state == 'stubborn-sigign':
        return [E('STUBBORN-SIGIGN'), {'op': 'sleep', 's': 0.3}]
    if state == 'lingering':
        # the work is over and reported, the child process does not go away (a thread left behind by the target keeps it)
        return [E('LINGER'), {'op': 'call', 'var': 'w', 'method': 'close'}, {'op': 'sleep', 's': 0.4}]
    if state == 'dying':
        return [E('POISON')]          # the restart meets the worker while it is going down on its own
    if state == 'killed+slow-consumer':
        return [E('old1'), {'op': 'sleep', 's': 0.3}, {'op': 'kill', 'var': 'w', 'sig': 'KILL'}, {'op': 'sleep', 's': 0.15}]
    if state in ('killed', 'killed+parked'):
        return [E('old1'), E('old2'), {'op': 'sleep', 's': 0.35}, {'op': 'kill', 'var': 'w', 'sig': 'KILL'}, {'op': 'sleep', 's': 0.1}]
    if state == 'stubborn':
        return [E('STUBBORN'), {'op': 'sleep', 's': 0.2}]
    if state == 'slow-unwind':
        return [E('SLOWUNWIND'), {'op': 'sleep', 's': 0.2}]
    if state == 'gil-hog':
        # no Python code of the child runs (its control thread included) until a signal ends the C call
        return [E('GILHOG'), {'op': 'sleep', 's': 0.4}]
    if state == 'stopped':
        return [E('old1'), {'op': 'sleep', 's': 0.3}, {'op': 'kill', 'var': 'w', 'sig': 'STOP'}, {'op': 'sleep', 's': 0.1}]
    raise ValueError(state)


def scripts(quick):
    out = []
    for kind in ('PT', 'PP', 'PR'):
        for state in STATES:
            if state in ('killed', 'killed+parked', 'lingering') and kind == 'PT':
                continue
            if state == 'stubborn-sigign' and kind != 'PP':
                continue      # a thread cannot be killed; the server side of the remote kind stops at SIGTERM
            if state in ('gil-hog', 'stopped') and kind != 'PP':
                continue      # (a thread in such a call takes the whole harness along; the remote frontend cannot signal the child)
            if state == 'killed+slow-consumer' and kind != 'PR':
                continue
            for pipe in ('default', 'supplied'):
                if state in ('big-unread', 'killed+parked') and pipe == 'default':
                    continue
                if state == 'killed+slow-consumer' and pipe == 'default':
                    continue
                for rargs in ('default', 'timeout', 'noforce', 'zero'):
                    if rargs == 'zero' and state not in ('stubborn', 'queued', 'fresh', 'slow-unwind'):
                        continue      # timeout=0 ("do not wait at all"), force=False
                    if state in ('stubborn-sigign', 'gil-hog', 'stopped') and rargs != 'timeout':
                        continue      # with force (the default) the last resort SIGKILL ends it: a good restart is expected
                    if state == 'lingering' and (rargs != 'timeout' or kind == 'PR'):
                        continue      # default: waits for ever; without force (and on the parent side of the remote kind) the child stays
                    if state == 'slow-unwind' and rargs not in ('noforce', 'zero'):
                        continue      # default: waits for ever; with force a thread-like child takes the caller along
                    if state != 'stubborn' and rargs == 'noforce' and state not in ('killed+parked', 'queued', 'big-unread', 'killed+slow-consumer', 'slow-unwind'):
                        continue
                    if state in ('killed+parked', 'killed+slow-consumer') and rargs != 'noforce':
                        continue      # with force the library's documented last resort is SIGTERM to the calling process
                    if state == 'stubborn' and kind in ('PT', 'PR') and rargs != 'noforce':
                        continue      # same: terminate(force=True) of a thread / remote frontend kills the caller
                    if state == 'stubborn' and rargs == 'default':
                        continue      # timeout=None means "wait for ever" and a stubborn target never finishes
                    if state == 'big-unread' and (rargs == 'default' or (kind in ('PT', 'PR') and rargs != 'noforce')):
                        continue      # nobody reads the full pipe: waiting for ever is the documented behaviour; force kills the caller
                    for nres in ((1, 2) if quick else (1, 2, 3)):
                        if nres > 1 and state in ('stubborn', 'killed+parked', 'big-unread', 'killed+slow-consumer', 'slow-unwind', 'lingering', 'stubborn-sigign', 'gil-hog', 'stopped'):
                            continue
                        target = 'slow_echo'
                        kw = {}
                        if state in ('big-unread', 'killed+parked'):
                            kw = {'size': 150000, 'delay': 0.05}
                        create = {'op': 'create', 'var': 'w', 'kind': kind, 'target': target, 'ctor': {'name': 'wname', 'userid': 0},
                                  'pipe': pipe if state != 'killed+slow-consumer' else 'slow-marker'}
                        if kw:
                            create['kwargs'] = kw
                        sc = [create, {'op': 'get', 'var': 'w', 'attr': 'pid', 'tag': 'pid0'}]
                        for r in range(nres):
                            sc += prep(state if r == 0 else 'unread', kind, None)
                            rk = {}
                            if rargs == 'timeout':
                                rk = {'timeout': 0.3}
                            elif rargs == 'noforce':
                                rk = {'timeout': 0.3, 'force': False}
                            elif rargs == 'zero':
                                rk = {'timeout': 0, 'force': False}
                            if pipe == 'supplied' and state != 'killed+slow-consumer':
                                rk['results_pipe'] = '<new-pipe>'
                            sc += [{'op': 'restart', 'var': 'w', 'kwargs': rk, 'tag': 'restart%d' % r, 'timeout': 40}]
                        if state == 'killed+slow-consumer':
                            sc += [{'op': 'sleep', 's': 1.5}]     # the parked forwarder of the old incarnation gets going
                        if pipe == 'supplied' and state in ('killed+parked', 'big-unread', 'unread', 'killed'):
                            sc += [{'op': 'drain_old_pipes', 'var': 'w', 'timeout': 1.0}, {'op': 'sleep', 's': 0.1}]
                        sc += [{'op': 'call', 'var': 'w', 'method': 'is_alive', 'tag': 'alive'},
                               {'op': 'get', 'var': 'w', 'attr': 'name', 'tag': 'name'},
                               {'op': 'get', 'var': 'w', 'attr': 'userid', 'tag': 'userid'},
                               {'op': 'get', 'var': 'w', 'attr': 'pid', 'tag': 'pid1'},
                               {'op': 'old_child_dead', 'var': 'w', 'kind': kind, 'tag': 'old-dead'},
                               {'op': 'call', 'var': 'w', 'method': 'enqueue', 'args': ['new1'], 'tag': 'enq1'},
                               {'op': 'call', 'var': 'w', 'method': 'enqueue', 'args': ['new2'], 'tag': 'enq2'},
                               {'op': 'call', 'var': 'w', 'method': 'next_result', 'kwargs': {'timeout': 8}, 'timeout': 10, 'tag': 'res1', 'stop_on_hang': False},
                               {'op': 'call', 'var': 'w', 'method': 'next_result', 'kwargs': {'timeout': 8}, 'timeout': 10, 'tag': 'res2', 'stop_on_hang': False},
                               {'op': 'call', 'var': 'w', 'method': 'wait', 'args': [10], 'tag': 'wait', 'stop_on_hang': False},
                               {'op': 'get', 'var': 'w', 'attr': 'result', 'tag': 'result'},
                               {'op': 'drain', 'var': 'w', 'tag': 'drain'}]
                        out.append({'script': sc, 'kind': kind, 'state': state, 'pipe': pipe, 'rargs': rargs, 'restarts': nres})
    return out


def judge(case, obs):
    if obs.get('driver_hang') or obs.get('driver_error'):
        # a driver that died is what terminate(force=True) of a thread-like child does on purpose; not used in these scenarios
        return [('driver-' + str(obs.get('driver_hang') or 'error'), obs.get('driver_error'))]
    t = {}
    for op, st in zip(case['script'], obs['steps']):
        if op.get('tag'):
            t[op['tag']] = st
    kind, state = case['kind'], case['state']
    for r in range(case['restarts']):
        rs = t.get('restart%d' % r)
        if rs is None:
            return [('harness', 'restart step missing')]
        cannot_stop = (state == 'stubborn' and (case['rargs'] in ('noforce', 'zero'))) or state in ('killed+parked', 'killed+slow-consumer') or \
            (state == 'big-unread' and case['rargs'] == 'noforce')
        if cannot_stop and r == 0:
            if rs.get('exc') != 'RuntimeError':
                if state in ('killed+parked', 'big-unread', 'killed+slow-consumer') and 'ret' in rs:
                    break      # the old incarnation could be stopped after all; then the restart must be a good one (judged below)
                return [('restart-of-unstoppable-worker-did-not-raise', rs)]
            # the old child must still be the worker's child
            if state == 'stubborn':
                if t['alive'].get('ret') is not True or t['pid1'].get('ret') != t['pid0'].get('ret'):
                    return [('running-child-abandoned', {'alive': t['alive'], 'pid_before': t['pid0'], 'pid_after': t['pid1']})]
            return []
        if rs.get('hang'):
            return [('restart-hangs', None)]
        if 'exc' in rs:
            return [('restart-raises-%s' % rs['exc'], rs)]
    bad = []
    if t['alive'].get('ret') is not True:
        bad.append(('not-alive-after-restart', t['alive']))
    if t['name'].get('ret') != 'wname':
        bad.append(('name-changed', t['name']))
    if t['userid'].get('ret') != 0:
        bad.append(('userid-changed', t['userid']))
    if kind in ('PP', 'PR') and t['pid1'].get('ret') == t['pid0'].get('ret'):
        bad.append(('identity-not-renewed', t['pid1']))
    if kind in ('PP', 'PR') and t['old-dead'].get('ret') is not True:
        bad.append(('old-child-still-running', t['old-dead']))
    if bad:
        return bad
    big = state in ('big-unread', 'killed+parked')
    exp = (lambda x: [x, 'p' * 150000]) if big else (lambda x: [x])
    for tag, x in (('res1', 'new1'), ('res2', 'new2')):
        if t[tag].get('ret') != exp(x):
            got = t[tag].get('ret')
            what = 'result-of-previous-incarnation' if isinstance(got, list) and got and str(got[0]).startswith('old') else 'new-incarnation-does-not-answer'
            return [(what, {'step': tag, 'got': (str(got)[:60] if got is not None else t[tag])})]
    if t['wait'].get('ret') is not True:
        return [('wait-after-restart-%s' % t['wait'].get('ret', 'hang'), t['wait'])]
    if t['result'].get('ret') != 2:
        return [('result-counter-not-from-zero', t['result'])]
    if t['drain'].get('ret') != [] or t['drain'].get('end') != 'empty':
        return [('stream-not-empty-after-restart', {'drain': str(t['drain'])[:100]})]
    return []


def run(ctx):
    ctx.rule = ('history = create, prepare state, restart x n, then probe the new incarnation (identity, two enqueues, results, wait, counter, drain); '
                'product of class x state x pipe x restart arguments x n; distinct = the tuple')
    cs = scripts(ctx.quick)
    res = land.run_cases(cs, case_timeout=150)
    harness = 0
    for case, obs in zip(cs, res):
        ctx.count()
        ctx.distinct((case['kind'], case['state'], case['pipe'], case['rargs'], case['restarts']))
        v = judge(case, obs)
        ctx.outcome('%s:%s:%s' % (case['kind'], case['state'], v[0][0] if v else 'ok'))
        for what, detail in v:
            if what == 'harness':
                harness += 1
                continue
            sig = 'SEQ/%s/%s/%s-pipe/%s/%s' % (case['kind'], case['state'], case['pipe'], case['rargs'], what)
            ctx.violation(sig, {k: v for k, v in case.items() if k != 'script'}, detail, 'a fresh, equivalent, live worker (or an exception and the old child kept)', engine='SEQ')
    ctx.sample({'case': {k: v for k, v in cs[10].items() if k != 'script'}, 'script': cs[10]['script']})
    ctx.extra['histories'] = len(cs)
    if harness > 3:
        ctx.selftest_fail('%d harness anomalies' % harness)


def replay(ctx, rec):
    c = rec['case']
    for case in scripts(False):
        if all(case[k] == c[k] for k in ('kind', 'state', 'pipe', 'rargs', 'restarts')):
            obs = land.run_cases([case], case_timeout=150)[0]
            for op, st in zip(case['script'], obs.get('steps', [])):
                print(op.get('tag', op['op']), str(st)[:150])
            v = judge(case, obs)
            print('verdict', v)
            ctx.count()
            for what, detail in v:
                ctx.violation(rec['signature'], c, detail, rec.get('expected'), engine='SEQ')
            return
