"""C02 - all worker kinds compute exactly what a direct call would (SEQ as a pure input product)."""
import os
import tempfile
import itertools

from .. import land
from ..land import _rep

LEVEL = 'exploration'
ENGINE = 'SEQ'
TECHNIQUE = 'exhaustive product of targets x argument shapes x return values (None, falsy, nested, custom class, 0 B .. 4 MiB crossing the pipe buffers) x exceptions x {thread, process, remote} x {constructor, Worker.create} x run flags x {timed, untimed, polling} wait, each executed on a real worker and compared with the direct call'
LEVEL_TEXT = ('the full product is enumerated (no sampling); the reference is the direct call in the checker; after wait() has_error/result/error must match it (exception type and args), not-run workers are dead at once with (False, None, None) and never call the target, the target is entered exactly once, and the three kinds agree')
LEVEL_NOTE = 'values are compared through a structural representation (bytes by length); definitions in the main script are covered by a separate script run as __main__ (3 modes x 3 kinds); wait() is given 20 s'


def cases(quick):
    out = []
    vals = ['none', 'zero', 'empty-str', 'empty-list', 'false', 'nested', 'obj', 'regex', 'union', 'b0', 'b64k1', 'b208k1', 'b1m'] if quick else \
        ['none', 'zero', 'empty-str', 'empty-list', 'false', 'nested', 'obj', 'regex', 'union', 'b0', 'b1', 'b64k', 'b64k1', 'b208k1', 'b1m', 'b4m']
    excs = ['ve0', 've2', 'ke', 'custom', 'bpe', 'eof', 'crst', 'empty', 'cce', 'wce'] if quick else \
        ['ve0', 've2', 'ke', 'custom', 'oserr', 'bpe', 'eof', 'crst', 'empty', 'cce', 'wce', 'timeout', 'assert', 'stop']
    shapes = [([], {}), (['a'], {}), (['a', 2], {}), (['a'], {'k': [1]}), ([], {'k': 1, 'j': None})]
    for kind in ('T', 'P', 'R'):
        for factory in (False, True):
            for v in vals:
                if factory and v in ('b1m', 'b4m', 'b208k1') and quick:
                    continue
                out.append({'kind': kind, 'factory': factory, 'target': 'ret_value', 'args': [v], 'kwargs': {}, 'what': 'value:' + v})
            for e in excs:
                out.append({'kind': kind, 'factory': factory, 'target': 'raise_exc', 'args': [e], 'kwargs': {}, 'what': 'exc:' + e})
            for a, k in shapes:
                out.append({'kind': kind, 'factory': factory, 'target': 'echo_args', 'args': a, 'kwargs': k, 'what': 'shape:%d+%d' % (len(a), len(k))})
            if kind == 'R' and not factory:
                # the parent drains its data connection slowly while the child has long finished sending
                for v in ('b208k1', 'b1m') if quick else ('b64k1', 'b208k1', 'b1m', 'b4m'):
                    out.append({'kind': kind, 'factory': factory, 'target': 'ret_value', 'args': [v], 'kwargs': {}, 'what': 'slow-reader/value:' + v,
                                'slow_reader': {'chunk': 16384, 'sleep': 0.01}})
            if kind in ('P', 'R') and not factory:
                # a result which takes the parent a while to recreate, while the caller keeps asking whether the worker is done (for
                # the remote kind: messages arriving on two connections are unpickled by two threads of the parent at the same time)
                for v in ('slowobj', 'many'):
                    out.append({'kind': kind, 'factory': factory, 'target': 'ret_value', 'args': [v], 'kwargs': {}, 'what': 'polling-caller/value:' + v,
                                'poll': True})
            if not factory:
                # the caller waits without a time limit ("wait()"): the result has to be taken over while it waits
                for v in ('b1m', 'nested') if quick else ('none', 'nested', 'b64k', 'b64k1', 'b208k1', 'b1m', 'b4m'):
                    out.append({'kind': kind, 'factory': factory, 'target': 'ret_value', 'args': [v], 'kwargs': {}, 'what': 'untimed-wait/value:' + v,
                                'untimed': True})
            if factory:
                # the factory after the persistent factory has produced a worker of the same kind in this process (what every Pool does)
                out.append({'kind': kind, 'factory': True, 'target': 'ret_value', 'args': ['nested'], 'kwargs': {}, 'what': 'factory-after-persistent-factory/value:nested',
                            'persistent_first': True})
                out.append({'kind': kind, 'factory': True, 'target': 'raise_exc', 'args': ['ve2'], 'kwargs': {}, 'what': 'factory-after-persistent-factory/exc:ve2',
                            'persistent_first': True})
            for run in (None, True, False):
                out.append({'kind': kind, 'factory': factory, 'target': 'echo_args', 'args': ['r'], 'kwargs': {}, 'run': run, 'what': 'run:%s' % run})
                out.append({'kind': kind, 'factory': factory, 'target': None, 'args': [], 'kwargs': {}, 'run': run, 'what': 'no-target/run:%s' % run})
    return out


def reference(c):
    """The direct call."""
    from .. import targets
    if c['target'] is None or c.get('run') is False:
        return ('not-run', None) if not (c['target'] is None and c.get('run') is True) else ('ret', None)
    f = getattr(targets, c['target'])
    try:
        return ('ret', _rep(f(*c['args'], **c['kwargs'])))
    except Exception as e:  # noqa
        return ('exc', _rep(e))


def main_script_part(ctx):
    """Target, result class and exception class defined in the main script (pwv/mainscript_case.py run as __main__)."""
    import sys
    import json
    import subprocess
    from ..core import HOME
    expect = {'value': (False, {'MainRes': [3, 3]}, None), 'raise': (True, None, {'exc': 'MainErr', 'args': ['from-main', 3]}), 'plain': (False, 4, None)}
    for kind in ('T', 'P', 'R'):
        for mode in ('value', 'raise', 'plain'):
            ctx.count()
            ctx.distinct(('main-script', kind, mode))
            try:
                p = subprocess.run([sys.executable, os.path.join(HOME, 'pwv', 'mainscript_case.py'), kind, mode], stdin=subprocess.DEVNULL,
                                   stdout=subprocess.PIPE, stderr=subprocess.DEVNULL, text=True, timeout=90, start_new_session=True)
                line = [l for l in p.stdout.splitlines() if l.startswith('PWV-RESULT ')]
                out = json.loads(line[-1][11:]) if line else {'harness_error': 'no result line (rc %s)' % p.returncode}
            except subprocess.TimeoutExpired:
                out = {'harness_error': 'timeout'}
            got = (out.get('has_error'), out.get('result'), out.get('error'))
            bad = None
            if out.get('harness_error'):
                bad = ('main-script-run-fails', out)
            elif out.get('wait') is not True:
                bad = ('wait-does-not-return-true', out)
            elif got != expect[mode]:
                bad = ('wrong-outcome', {'got': list(got), 'direct_call': list(expect[mode])})
            ctx.outcome('%s:main-script:%s' % (kind, bad[0] if bad else 'ok'))
            if bad:
                ctx.violation('SEQ/%s/main-script-%s/%s' % (kind, mode, bad[0]), {'kind': kind, 'mode': mode, 'defined_in': '__main__'}, bad[1],
                              'same outcome as the direct call', engine='SEQ')


def run(ctx):
    ctx.rule = ('case = (kind, constructor|factory, target, args, kwargs, run flag); full product of the listed menus; distinct = the tuple')
    cs = cases(ctx.quick)
    tmp = tempfile.mkdtemp(prefix='pwv_c02_')
    jobs = []
    for i, c in enumerate(cs):
        cf = os.path.join(tmp, 'count.%d' % i)
        c['count_file'] = cf
        create = {'op': 'create', 'var': 'w', 'kind': c['kind'], 'target': c['target'], 'factory': c['factory']}
        if c['args']:
            create['args'] = c['args']
        kw = dict(c['kwargs'])
        if c['target']:
            kw['count_file'] = cf
        if kw:
            create['kwargs'] = kw
        if 'run' in c:
            create['run'] = c['run']
        if c.get('slow_reader'):
            create['slow_reader'] = c['slow_reader']
        pre = []
        if c.get('persistent_first'):
            pre = [{'op': 'create', 'var': 'w0', 'kind': 'P' + c['kind'], 'target': 'echo', 'factory': True},
                   {'op': 'call', 'var': 'w0', 'method': 'call', 'args': ['a'], 'timeout': 10, 'tag': 'persistent-call'},
                   {'op': 'call', 'var': 'w0', 'method': 'wait', 'args': [10]}]
        sc = pre + [create,
              {'op': 'call', 'var': 'w', 'method': 'is_alive', 'tag': 'alive0'},
              ({'op': 'poll_wait', 'var': 'w', 'step': 0.002, 'gap': 0.0, 'within': 30, 'tag': 'wait'} if c.get('poll') else
               {'op': 'call', 'var': 'w', 'method': 'wait', 'args': [] if c.get('untimed') else [20], 'timeout': 30, 'tag': 'wait', 'stop_on_hang': False}),
              {'op': 'get', 'var': 'w', 'attr': 'has_error', 'tag': 'has_error'},
              {'op': 'get', 'var': 'w', 'attr': 'result', 'tag': 'result'},
              {'op': 'get', 'var': 'w', 'attr': 'error', 'tag': 'error'},
              {'op': 'read_file', 'path': cf, 'tag': 'count'}]
        jobs.append({'script': sc})
    res = land.run_cases(jobs, case_timeout=120)
    import shutil
    shutil.rmtree(tmp, ignore_errors=True)
    by_case = {}
    harness = 0
    for c, obs in zip(cs, res):
        ctx.count()
        key = (c['kind'], c['factory'], c['what'])
        ctx.distinct(key)
        if obs.get('driver_hang') or obs.get('driver_error'):
            harness += 1
            continue
        st = obs['steps']
        ref = reference(c)
        t = {op.get('tag'): s for op, s in zip(jobs[0]['script'], st)} if False else None
        names = ['create', 'alive0', 'wait', 'has_error', 'result', 'error', 'count']
        d = dict(zip(names, st[3:] if c.get('persistent_first') else st))
        bad = None
        if c.get('persistent_first') and (len(st) < 3 or st[1].get('ret') != [['a'], []]):
            # whichever factory was used first in this process, the persistent factory gives a persistent worker
            bad = ('persistent-factory-does-not-give-a-working-persistent-worker', st[1] if len(st) > 1 else st)
        elif 'ret' not in d['create']:
            bad = ('constructor-%s' % d['create'].get('exc', 'hang'), d['create'])
        elif d['wait'].get('ret') is not True:
            bad = ('wait-does-not-return-true:%s' % d['wait'].get('ret', d['wait'].get('exc', 'hang')), d['wait'])
        else:
            he, r, e, cnt = d['has_error'].get('ret', d['has_error']), d['result'].get('ret', d['result']), d['error'].get('ret', d['error']), d['count'].get('ret')
            ncalls = len((cnt or '').split())
            if ref[0] == 'not-run':
                if d['alive0'].get('ret') is not False:
                    bad = ('not-run-worker-alive', d['alive0'])
                elif (he, r, e) != (False, None, None):
                    bad = ('not-run-outcome', [he, r, e])
                elif ncalls:
                    bad = ('not-run-worker-called-the-target', ncalls)
            elif ref[0] == 'ret':
                if (he, r, e) != (False, ref[1], None):
                    short = lambda v: v if len(repr(v)) < 200 else repr(v)[:200] + '...'  # noqa
                    bad = ('wrong-outcome-for-return', {'got': [he, short(r), e], 'direct_call': short(ref[1])})
            else:
                if (he, r) != (True, None) or e != ref[1]:
                    bad = ('wrong-outcome-for-exception', {'got': [he, r, e], 'direct_call': ref[1]})
            if bad is None and c['target'] and ref[0] != 'not-run' and ncalls != 1:
                bad = ('target-entered-%d-times' % ncalls, None)
        by_case.setdefault((c['factory'], c['what']), {})[c['kind']] = 'ok' if bad is None else bad[0]
        ctx.outcome('%s:%s' % (c['kind'], bad[0] if bad else 'ok'))
        if bad:
            size = c['what'] if not c['what'].startswith('value:b') else ('value:bytes>pipe-buffer' if c['args'][0] in ('b208k1', 'b1m', 'b4m') else 'value:bytes')
            sig = 'SEQ/%s/%s/%s' % (c['kind'], size, bad[0])
            ctx.violation(sig, {k: v for k, v in c.items() if k != 'count_file'}, bad[1], 'same outcome as the direct call', engine='SEQ')
    main_script_part(ctx)
    ctx.sample({'case': {k: v for k, v in cs[5].items() if k != 'count_file'}, 'script': jobs[5]['script']})
    ctx.sample({'case': {k: v for k, v in cs[-1].items() if k != 'count_file'}})
    ctx.extra['cases'] = len(cs)
    if harness > 3:
        ctx.selftest_fail('%d harness anomalies' % harness)


def replay(ctx, rec):
    print('C02 replay: re-run the check; failing case:', rec['case'])
    run(ctx)
