"""C10 - message framing survives any segmentation and detects any truncation (STREAM)."""
import os
import itertools

from ..stream import (ScriptedSocket, CaptureSocket, ShortWriteSocket, Budget, WouldBlock, compositions, cuts_to_segments,
                      interesting_offsets)

LEVEL = 'fault_enumeration'
ENGINE = 'STREAM'
TECHNIQUE = 'bounded exhaustive enumeration of stream segmentations and truncation points against the real recv_msg, and of short-write answers of the kernel (send/sendmsg taking part of the data) against the real send_msg (explicit enumeration, no sampling)'
LEVEL_TEXT = ('every segmentation (all 2^(n-1) for short streams; all single and double cuts over a boundary/power-of-two offset set and uniform chunkings down to 1 byte for long ones) and every truncation offset x {FIN,RST} of real send_msg output is replayed into the real recv_msg through a scripted socket; the oracle is equality with the sent messages followed by ConnectionClosedError, with a recv budget turning spins into verdicts')
LEVEL_NOTE = 'trusts the scripted socket to model POSIX recv semantics; payload menu is finite; long streams are cut only at the enumerated offset set, not at every offset pair'


class Importable:
    def __init__(self, v):
        self.v = v

    def __eq__(self, o):
        return type(o) is Importable and o.v == self.v


def build_stream(msgs):
    from pyworkers.remote import send_msg
    cap = CaptureSocket()
    for m in msgs:
        send_msg(cap, m)
    return bytes(cap.buf), list(cap.msg_ends)


def where(off, ends):
    """Classify a stream offset: inside a header, inside a body, or on a message boundary."""
    start = 0
    for i, e in enumerate(ends):
        if off == start:
            return 'boundary'
        if off < start + 4:
            return 'header'
        if off < e:
            return 'body'
        start = e
    return 'end'


def read_all(sock, limit):
    """Read messages until something other than a message comes back."""
    from pyworkers.remote import recv_msg, ConnectionClosedError
    got = []
    end = None
    for _ in range(limit + 2):
        try:
            got.append(recv_msg(sock))
        except ConnectionClosedError:
            end = 'closed'
            break
        except Budget as e:
            end = 'spin'
            break
        except WouldBlock:
            end = 'wouldblock'
            break
        except BaseException as e:  # noqa
            end = 'exc:' + type(e).__name__
            break
    else:
        end = 'toomany'
    return got, end


def judge(ctx, kind, msgs, data, ends, segs, ending, t, got, end):
    """t = number of bytes the peer delivered before the stream ended (len(data) = complete)."""
    ncomplete = sum(1 for e in ends if e <= t)
    exp = msgs[:ncomplete]
    ok = (end == 'closed' and len(got) == len(exp) and all(type(a) is type(b) and a == b for a, b in zip(got, exp)))
    if ok:
        return True
    # classify
    cutpos = set()
    acc = 0
    for s in segs[:-1]:
        acc += s
        cutpos.add(where(acc, ends))
    if end == 'spin':
        cls = 'spin-on-eof'
    elif end == 'closed' and len(got) < len(exp):
        cls = 'spurious-closed'
    elif end == 'closed' and len(got) > len(exp):
        cls = 'partial-message-returned'
    elif end == 'closed':
        cls = 'wrong-message'
    else:
        cls = end
    if kind == 'segmentation':
        loc = 'cut-in-header' if 'header' in cutpos else ('cut-in-body' if 'body' in cutpos else 'cut-on-boundary')
    else:
        loc = 'eof-in-' + where(t, ends) + ('+cut-in-header' if 'header' in cutpos else '')
    sig = 'STREAM/%s/%s/%s' % (kind if kind == 'segmentation' else kind + '-' + ending, cls, loc)
    ctx.violation(sig, {'msgs': describe(msgs), 'stream_len': len(data), 'segments': compact(segs), 'ending': ending,
                        'delivered': t},
                  {'returned': len(got), 'end': end}, {'returned': len(exp), 'end': 'closed'}, engine='STREAM')
    return False


def describe(msgs):
    out = []
    for m in msgs:
        if isinstance(m, bytes) and len(m) > 32:
            out.append('bytes[%d]' % len(m))
        else:
            out.append(repr(m))
    return out


def compact(segs):
    if len(segs) > 12:
        return {'n': len(segs), 'head': segs[:6], 'tail': segs[-3:]}
    return segs


def run_one(ctx, kind, msgs, data, ends, segs, ending, t):
    sock = ScriptedSocket(data[:t], segs, ending, budget=2 * len(data) + 1000)      # more calls than bytes means the reader spins
    got, end = read_all(sock, len(msgs))
    ctx.count()
    ctx.outcome('%s:%s:%d' % (kind, end, len(got)))
    return judge(ctx, kind, msgs, data, ends, segs, ending, t, got, end)


def materialise(spec):
    out = []
    for m in spec:
        if isinstance(m, dict) and 'bytes' in m:
            out.append(bytes((i * 7 + 3) % 251 for i in range(m['bytes'])))
        elif isinstance(m, dict) and 'obj' in m:
            out.append(Importable(m['obj']))
        else:
            out.append(m)
    return out


SHORT = [[None], [0], [None, None]]
SHORT_THOROUGH = [[None, 0], [0, None, None]]
LONG_QUICK = [[0, 'ab'], [b''], [(1, [2], {'k': 3})], [None, 1, 'x', [2]], [{'bytes': 65537}]]
LONG_THOROUGH = [[{'bytes': 300 * 1024}, None], [{'bytes': 70000}, {'obj': 5}, 'z'], [{'bytes': 1}, {'bytes': 255}, {'bytes': 256}, {'bytes': 65536}]]


class _Collector:
    """Stand-in for the check context inside a worker process."""

    def __init__(self):
        self.n = 0
        self.outcomes = {}
        self.viol = []

    def count(self, n=1):
        self.n += n

    def outcome(self, k):
        self.outcomes[k] = self.outcomes.get(k, 0) + 1

    def violation(self, sig, case, observed, expected, engine=None):
        if len(self.viol) < 5:
            self.viol.append((sig, case, observed, expected))


def _segs_of_mask(mask, n):
    segs = []
    run = 1
    for i in range(n - 1):
        if mask >> i & 1:
            segs.append(run)
            run = 1
        else:
            run += 1
    segs.append(run)
    return segs


def _comp_chunk(args):
    spec, lo, hi = args
    msgs = materialise(spec)
    data, ends = build_stream(msgs)
    n = len(data)
    col = _Collector()
    for mask in range(lo, hi):
        run_one(col, 'segmentation', msgs, data, ends, _segs_of_mask(mask, n), 'FIN', n)
    return col.n, col.outcomes, col.viol


def all_compositions_parallel(ctx, spec, msgs, data, ends):
    """All 2^(n-1) segmentations of a short stream, sharded over the cores (same order-independent enumeration)."""
    import multiprocessing
    n = len(data)
    total = 1 << (n - 1)
    nchunks = 256
    step = (total + nchunks - 1) // nchunks
    jobs = [(spec, lo, min(total, lo + step)) for lo in range(0, total, step)]
    done = 0
    with multiprocessing.get_context('fork').Pool(min(16, os.cpu_count() or 4)) as pool:
        for cnt, outcomes, viol in pool.imap_unordered(_comp_chunk, jobs):
            ctx.count(cnt)
            done += cnt
            for k, v in outcomes.items():
                ctx.outcomes[k] = ctx.outcomes.get(k, 0) + v
            for sig, case, observed, expected in viol:
                ctx.violation(sig, case, observed, expected, engine='STREAM')
    ctx.extra.setdefault('parallel_composition_streams', []).append({'msgs': describe(msgs), 'stream_len': n, 'segmentations': done})
    return done


def run(ctx):
    ctx.rule = ('messages are framed by the real send_msg into a capturing socket; the byte stream is replayed into the real '
                'recv_msg through a scripted socket for every segmentation (all 2^(n-1) compositions for short streams, every '
                'single cut and every pair of cuts from the boundary/power-of-two offset set plus uniform chunkings for long '
                'ones) and for every truncation offset x {FIN,RST}; a case is distinct by (stream, segmentation, ending, offset)')
    ctx.assumptions = ['recv(n) returns between 1 and n bytes while data remains, b"" after FIN, ConnectionResetError after RST',
                       'payload values outside the listed menu are not explored']
    shorts = SHORT + ([] if ctx.quick else SHORT_THOROUGH)
    longs = LONG_QUICK + ([] if ctx.quick else LONG_THOROUGH)
    nshort = 0
    for spec in shorts:
        msgs = materialise(spec)
        data, ends = build_stream(msgs)
        n = len(data)
        ctx.sample({'msgs': describe(msgs), 'stream_len': n, 'mode': 'all %d compositions + all truncations' % (1 << (n - 1))})
        if n > 18:
            k = all_compositions_parallel(ctx, spec, msgs, data, ends)
            nshort += k
            ctx.distinct(('s-all', tuple(spec_key(spec)), k))
            ctx.distinct_extra += k
            ctx.extra['distinct_in_parallel_shards'] = ctx.extra.get('distinct_in_parallel_shards', 0) + k
        else:
            for segs in compositions(n):
                run_one(ctx, 'segmentation', msgs, data, ends, segs, 'FIN', n)
                ctx.distinct(('s', tuple(spec_key(spec)), tuple(segs)))
                nshort += 1
        # every truncation offset x every segmentation of the delivered prefix (bounded by 2^(t-1))
        for t in range(0, n):
            for ending in ('FIN', 'RST'):
                if t <= 12:
                    it = compositions(t)
                else:
                    it = [cuts_to_segments(t, []), [1] * t] + [cuts_to_segments(t, [c]) for c in range(1, t)]
                for segs in it:
                    run_one(ctx, 'truncation', msgs, data, ends, segs, ending, t)
                    ctx.distinct(('t', tuple(spec_key(spec)), tuple(segs), ending, t))
    for spec in longs:
        msgs = materialise(spec)
        data, ends = build_stream(msgs)
        n = len(data)
        offs = interesting_offsets(n, ends, margin=9 if not ctx.quick else 6)
        if ctx.quick and len(offs) > 70:
            # keep everything near headers/boundaries, thin the powers of two
            near = [o for o in offs if any(abs(o - b) <= 6 for b in [0] + ends)]
            offs = sorted(set(near + [o for o in offs if o & (o - 1) == 0]))
        ctx.sample({'msgs': describe(msgs), 'stream_len': n, 'cut_offsets': len(offs), 'mode': 'single+double cuts, uniform chunks, truncations'})
        plans = [[]] + [[c] for c in offs] + [list(p) for p in itertools.combinations(offs, 2)]
        big = n > 100000
        for cuts in plans:
            if big and len(cuts) == 2 and ctx.quick:
                continue
            segs = cuts_to_segments(n, cuts)
            run_one(ctx, 'segmentation', msgs, data, ends, segs, 'FIN', n)
            ctx.distinct(('s', tuple(spec_key(spec)), tuple(cuts)))
        chunks = [1, 2, 3, 5, 7, 4096, 65536] if n <= 70000 or not ctx.quick else [3, 4096, 65536]
        for c in chunks:
            if c == 1 and n > 70000:
                continue
            if c <= 2 and n > 20000 and ctx.quick:
                continue
            segs = [c] * (n // c) + ([n % c] if n % c else [])
            run_one(ctx, 'segmentation', msgs, data, ends, segs, 'FIN', n)
            ctx.distinct(('u', tuple(spec_key(spec)), c))
        for t in [0] + offs:
            for ending in ('FIN', 'RST'):
                for segs in ([t] if t else [], cuts_to_segments(t, [c for c in (3, 4, 5, t - 1)]),
                             cuts_to_segments(t, [e for e in ends] + [e + 2 for e in ends])):
                    run_one(ctx, 'truncation', msgs, data, ends, segs, ending, t)
                    ctx.distinct(('t', tuple(spec_key(spec)), tuple(segs[:8]), ending, t))
    ctx.extra['short_stream_compositions'] = nshort
    # the sending side: the kernel takes only part of what one send()/sendmsg() call offers (environment answer "short write");
    # whatever calls the sender uses, the bytes that left are the complete frames
    from pyworkers.remote import send_msg
    nsend = 0
    for spec in shorts + longs:
        msgs = materialise(spec)
        data, ends = build_stream(msgs)
        first = ends[0]
        menu = [[1], [3], [4], [5], [first - 1], [first], [first + 1], [1, 1], [4, 1], [5, 3], [1, 1, 1, 1, 1]]
        for caps in menu:
            if caps[0] <= 0:
                continue
            sock = ShortWriteSocket(caps)
            err = None
            try:
                for m in msgs:
                    send_msg(sock, m)
            except BaseException as e:  # noqa
                err = type(e).__name__
            ctx.count()
            nsend += 1
            ctx.distinct(('w', tuple(spec_key(spec)), tuple(caps)))
            ok = err is None and bytes(sock.buf) == data
            ctx.outcome('short-write:%s' % ('ok' if ok else (err or 'bytes-lost')))
            if not ok:
                ctx.violation('STREAM/short-write/%s' % (err or 'bytes-lost'), {'msgs': describe(msgs), 'caps': caps, 'kind': 'short-write'},
                              {'sent': len(sock.buf), 'error': err}, {'sent': len(data)}, engine='STREAM')
    ctx.extra['short_write_runs'] = nsend


def spec_key(spec):
    return [repr(s) for s in spec]


def replay(ctx, rec):
    c = rec['case']
    # rebuild from the description
    msgs = []
    for d in c['msgs']:
        if d.startswith('bytes['):
            msgs.append(bytes((i * 7 + 3) % 251 for i in range(int(d[6:-1]))))
        elif d.startswith('<'):
            msgs.append(Importable(5))
        else:
            msgs.append(eval(d))
    data, ends = build_stream(msgs)
    if c.get('kind') == 'short-write':
        from pyworkers.remote import send_msg
        sock = ShortWriteSocket(c['caps'])
        err = None
        try:
            for m in msgs:
                send_msg(sock, m)
        except BaseException as e:  # noqa
            err = type(e).__name__
        ctx.count()
        print('sent', len(sock.buf), 'of', len(data), 'error', err)
        if err is not None or bytes(sock.buf) != data:
            ctx.violation(rec['signature'], c, {'sent': len(sock.buf), 'error': err}, {'sent': len(data)}, engine='STREAM')
        return
    segs = c['segments']
    if isinstance(segs, dict):
        raise SystemExit('segmentation too long to be stored; re-run the check')
    kind = 'segmentation' if c['delivered'] == len(data) else 'truncation'
    run_one(ctx, kind, msgs, data, ends, segs, c['ending'], c['delivered'])
