"""C11 - the remote server survives every client failure (STREAM on real sockets + SEQ)."""
import os

from .. import land

LEVEL = 'fault_enumeration'
ENGINE = 'STREAM'
TECHNIQUE = 'exhaustive enumeration of client faults against a real server: a recorded well-formed client byte stream per request type cut at every enumerated offset with FIN or RST, every step of the control-channel handshake, garbage payloads, ordered pairs of faults, and the header cuts repeated against a server configured to stop on a None request, each with a healthy bystander worker running on the same server'
LEVEL_TEXT = ('for each request type (worker, persistent worker, context create, context delete, worker in context) the real client byte stream is recorded from a real client of the same server instance and replayed through a raw socket, cut at each offset of the cut set (quick: both headers, the first/last 32 bytes of the payload, every 64th byte; thorough: every offset) and ended with FIN or RST; plus the control-channel steps; oracle after every fault: the server process is alive, a fresh worker round trip succeeds, the bystander worker is alive and later delivers its correct result')
LEVEL_NOTE = 'a client that stays connected but silent is outside the property (crash = the connection ends); whether the faulty client own child keeps running is not judged'

RTYPES = ('worker', 'pworker', 'ctx-create', 'ctx-delete', 'worker-in-ctx')


def cut_set(n, hlen, quick):
    if not quick:
        return list(range(0, n + 1))
    s = set(range(0, min(n, hlen + 8) + 1))
    s |= set(range(hlen, min(n, hlen + 40)))
    s |= set(range(max(0, n - 32), n + 1))
    s |= set(range(0, n, 64))
    return sorted(s)


def fault_script(rtype, fault, second=None, close_on_none=False):
    if rtype == 'worker-in-ctx':
        # the bystander lives in the context the faulty request addresses (its requests are handled by the context's process)
        by = {'op': 'create', 'var': 'by', 'kind': 'PR', 'target': None, 'ctor': {'context': '<c11-ctx>'}, 'tag': 'bystander'}
    else:
        by = {'op': 'create', 'var': 'by', 'kind': 'PR', 'target': 'slow_echo', 'kwargs': {'delay': 0.25}, 'tag': 'bystander'}
    sc = [{'op': 'heal_server'},
          by,
          {'op': 'call', 'var': 'by', 'method': 'enqueue', 'args': ['b1']},
          {'op': 'c11_fault', 'rtype': rtype, 'fault': fault, 'tag': 'fault'}]
    if second:
        sc.append({'op': 'c11_fault', 'rtype': second[0], 'fault': second[1], 'tag': 'fault2'})
    sc += [{'op': 'sleep', 's': 0.05},
           {'op': 'server_alive', 'tag': 'server'},
           {'op': 'probe', 'tag': 'probe', 'stop_on_hang': False},
           {'op': 'call', 'var': 'by', 'method': 'is_alive', 'tag': 'by-alive'},
           {'op': 'call', 'var': 'by', 'method': 'next_result', 'kwargs': {'timeout': 6}, 'timeout': 8, 'tag': 'by-result', 'stop_on_hang': False},
           {'op': 'call', 'var': 'by', 'method': 'call', 'args': ['b2'], 'timeout': 8, 'tag': 'by-second', 'stop_on_hang': False},
           {'op': 'call', 'var': 'by', 'method': 'wait', 'args': [5], 'tag': 'by-wait', 'stop_on_hang': False}]
    if rtype == 'worker-in-ctx':
        # and the context still accepts new workers
        sc += [{'op': 'create', 'var': 'again', 'kind': 'PR', 'target': None, 'ctor': {'context': '<c11-ctx>'}, 'tag': 'ctx-again', 'timeout': 10, 'stop_on_hang': False},
               {'op': 'call', 'var': 'again', 'method': 'call', 'args': ['c'], 'timeout': 8, 'tag': 'ctx-again-result', 'stop_on_hang': False},
               {'op': 'call', 'var': 'again', 'method': 'wait', 'args': [5], 'stop_on_hang': False}]
    sc += [{'op': 'heal_server', 'tag': 'heal'}]
    if close_on_none:
        # the same on a server configured to stop on a None request (the default of the command-line server): a client which
        # goes away is not such a request
        sc = [{'op': 'respawn_server', 'close_on_none': True}] + sc + [{'op': 'respawn_server'}]
    return sc


def run(ctx):
    ctx.rule = ('fault = (request type, cut offset | control-channel step | garbage, FIN|RST); the client stream is recorded from a real client; '
                'distinct = the tuple; every fault runs with a bystander persistent remote worker on the same server')
    # learn the stream lengths
    probe = land.run_cases([{'script': [{'op': 'c11_fault', 'rtype': rt, 'fault': {'kind': 'connect-close'}}, {'op': 'heal_server'}]} for rt in RTYPES], nproc=5, case_timeout=120)
    lens = {}
    for rt, r in zip(RTYPES, probe):
        st = r.get('steps', [{}])[0]
        if 'stream_len' not in st:
            ctx.selftest_fail('could not record the %s request: %s' % (rt, str(st)[:200]))
            return
        lens[rt] = (st['stream_len'], st['header_len'])
    ctx.extra['recorded_streams'] = {rt: {'bytes': lens[rt][0], 'header_bytes': lens[rt][1]} for rt in RTYPES}
    jobs, plan = [], []
    for rt in RTYPES:
        n, hlen = lens[rt]
        for cut in cut_set(n, hlen, ctx.quick):
            for ending in ('FIN', 'RST'):
                f = {'kind': 'cut', 'cut': cut, 'ending': ending}
                jobs.append({'script': fault_script(rt, f)})
                where = 'connect' if cut == 0 else ('header' if cut < hlen else ('payload' if cut < n else 'complete-request'))
                plan.append({'rtype': rt, 'fault': f, 'where': where})
        # the complete request followed by a reset at once (the default variant leaves 10 ms in between)
        f = {'kind': 'cut', 'cut': n, 'ending': 'RST', 'when': 'at-once'}
        jobs.append({'script': fault_script(rt, f)})
        plan.append({'rtype': rt, 'fault': f, 'where': 'complete-request-reset-at-once'})
        jobs.append({'script': fault_script(rt, {'kind': 'garbage'})})
        plan.append({'rtype': rt, 'fault': {'kind': 'garbage'}, 'where': 'garbage-payload'})
    for rt in (('worker',) if ctx.quick else RTYPES):
        n, hlen = lens[rt]
        for cut in (range(0, hlen + 2) if ctx.quick else sorted(set(range(0, hlen + 8)) | set(range(n - 3, n + 1)))):
            for ending in ('FIN', 'RST'):
                f = {'kind': 'cut', 'cut': cut, 'ending': ending}
                jobs.append({'script': fault_script(rt, f, close_on_none=True)})
                where = 'connect' if cut == 0 else ('header' if cut < hlen else ('payload' if cut < n else 'complete-request'))
                plan.append({'rtype': rt, 'fault': f, 'where': 'server-stopping-on-None/' + where, 'close_on_none': True})
    for rt in ('worker', 'pworker'):
        for kind in ('ctrl-never-connect', 'ctrl-connect-close', 'close-after-info', 'close-only-data', 'close-only-ctrl'):
            for ending in ('FIN', 'RST'):
                f = {'kind': kind, 'ending': ending}
                jobs.append({'script': fault_script(rt, f)})
                plan.append({'rtype': rt, 'fault': f, 'where': kind})
    # ordered pairs of faults (several faulty clients in a row)
    pair_menu = [('worker', {'kind': 'connect-close'}), ('worker', {'kind': 'cut', 'cut': 10, 'ending': 'RST'}),
                 ('pworker', {'kind': 'cut', 'cut': -5, 'ending': 'FIN'}), ('ctx-create', {'kind': 'cut', 'cut': 40, 'ending': 'FIN'}),
                 ('worker', {'kind': 'ctrl-connect-close', 'ending': 'FIN'}), ('worker-in-ctx', {'kind': 'cut', 'cut': -3, 'ending': 'RST'})]
    if not ctx.quick:
        pair_menu += [('pworker', {'kind': 'close-after-info', 'ending': 'RST'}), ('ctx-delete', {'kind': 'garbage'})]
    for a in pair_menu:
        for b in pair_menu:
            jobs.append({'script': fault_script(a[0], a[1], second=b)})
            plan.append({'rtype': a[0], 'fault': a[1], 'second': list(b), 'where': 'pair'})
    res = land.run_cases(jobs, case_timeout=120)
    harness = 0
    for meta, job, obs in zip(plan, jobs, res):
        ctx.count()
        ctx.distinct(repr(meta))
        if obs.get('driver_hang') or obs.get('driver_error'):
            harness += 1
            ctx.extra.setdefault('harness_anomalies', []).append({'meta': meta, 'why': str(obs.get('driver_hang') or obs.get('driver_error'))[:100]})
            continue
        t = {}
        for op, st in zip(job['script'], obs['steps']):
            if op.get('tag'):
                t[op['tag']] = st
        if t.get('bystander', {}).get('ret') != 'created' or t.get('fault', {}).get('harness_error'):
            harness += 1
            ctx.extra.setdefault('harness_anomalies', []).append({'meta': meta, 'why': str(t.get('bystander'))[:80] + str(t.get('fault'))[:80]})
            continue
        bad = None
        if t.get('server', {}).get('ret') is not True:
            bad = ('server-died', t.get('server'))
        elif t.get('probe', {}).get('ret') != [True, 49]:
            bad = ('server-does-not-serve-new-clients', t.get('probe'))
        elif t.get('by-alive', {}).get('ret') is not True:
            bad = ('bystander-worker-died', t.get('by-alive'))
        elif t.get('by-result', {}).get('ret') != ['b1']:
            bad = ('bystander-result-lost', t.get('by-result'))
        elif t.get('by-second', {}).get('ret') != ['b2']:
            bad = ('bystander-stopped-working', t.get('by-second'))
        elif t.get('by-wait', {}).get('ret') is not True:
            bad = ('bystander-cannot-finish', t.get('by-wait'))
        elif 'ctx-again' in t and (t['ctx-again'].get('ret') != 'created' or t.get('ctx-again-result', {}).get('ret') != ['c']):
            bad = ('context-does-not-serve-new-workers', {'create': t.get('ctx-again'), 'result': t.get('ctx-again-result')})
        ctx.outcome('%s:%s:%s' % (meta['rtype'], meta['where'], bad[0] if bad else 'ok'))
        if bad:
            ctx.violation('STREAM/%s/%s/%s' % (meta['rtype'], meta['where'], bad[0]), meta, bad[1],
                          'server alive, new clients served, bystander undisturbed', engine='STREAM')
    ctx.sample({'fault': plan[5], 'script': jobs[5]['script']})
    ctx.sample({'fault': plan[-1]})
    ctx.extra['faults'] = len(jobs)
    if harness > max(5, len(jobs) // 50):
        ctx.selftest_fail('%d harness anomalies' % harness)


def replay(ctx, rec):
    c = rec['case']
    sc = fault_script(c['rtype'], c['fault'], second=tuple(c['second']) if c.get('second') else None, close_on_none=bool(c.get('close_on_none')))
    obs = land.run_cases([{'script': sc}], case_timeout=120)[0]
    for op, st in zip(sc, obs.get('steps', [])):
        print(op.get('tag', op['op']), str(st)[:160])
    ctx.count()
