"""C20 - creating a worker returns a usable worker or raises - it never hangs (STREAM with a scripted server + LAND)."""
import os

from .. import land

LEVEL = 'fault_enumeration'
ENGINE = 'STREAM+LAND'
TECHNIQUE = 'exhaustive enumeration of start-up faults: the two server-to-client handshake messages cut at every byte offset with FIN or RST (scripted peer on real TCP sockets), refused control connection, unknown context id, the child / backend killed or failing at every line before it reports its identity, the server killed at every line of its side of the handshake'
LEVEL_TEXT = ('one real constructor call per fault; oracle: the constructor returns or raises within the bound (a blocked constructor is a hang), a returned worker has the pid of the child that was really started, the server stays alive for faults that are not its own death, no backend process is left behind')
LEVEL_NOTE = 'a peer that stays connected but silent is outside the property; line-level fault points in the child/server are those of the current base path; bound 15 s per constructor'

REPO = os.environ.get('PWV_REPO', '/repo')
P_ARM = {'file': 'process.py', 'func': '_run', 'line_text': 'assert self._pid != os.getpid()'}
P_ID_TEXT = 'self._comms.child_end.put((self._pid, self._tid, self._ident))'
R_ARM = {'file': 'remote.py', 'func': '_run_backend', 'line_text': "logger.details('Backend reached')"}
R_ID_TEXT = 'self._comms.child_end.send((self._host, self._pid, self._tid, self._ident))'
S_ARM = {'file': 'remote_server.py', 'func': 'run', 'cls': 'RemoteServer', 'line_text': 'cli, cli_addr = self.socket.accept()'}
CLS = {'P': 'ProcessWorker', 'PP': 'PersistentProcessWorker', 'R': 'RemoteWorker', 'PR': 'PersistentRemoteWorker'}


def line_of(fname, text):
    with open(os.path.join(REPO, 'pyworkers', fname)) as f:
        for i, ln in enumerate(f, 1):
            if ln.strip() == text:
                return i
    return None


def create_op(kind, **extra):
    tgt = 'p_echo' if len(kind) == 2 else 't_ret_now'
    op = {'op': 'create', 'var': 'w', 'kind': kind, 'target': tgt, 'timeout': 15}
    op.update(extra)
    return op


def after_create(kind):
    return [{'op': 'get', 'var': 'w', 'attr': 'pid', 'tag': 'pid'}, {'op': 'child_pid', 'var': 'w', 'tag': 'child_pid'},
            {'op': 'call', 'var': 'w', 'method': 'terminate', 'args': [3], 'timeout': 20, 'tag': 'terminate'}]


F_ARM = {'file': 'remote.py', 'func': '_run_frontend', 'line_text': "logger.details('Frontend reached')"}
# one-time work (class checks, caches) makes the first construction in a process longer than the later ones: warm up first
WARM = [{'op': 'fake_server', 'phase': 'addr', 'cut': 5, 'ending': 'FIN'}, dict(create_op('R', host='fake'), var='warm1'),
        {'op': 'fake_server', 'phase': 'addr', 'cut': 5, 'ending': 'FIN'}, dict(create_op('PR', host='fake'), var='warm2')]


def parent_paths():
    """The parent frontend thread's own line paths: (success path up to the release of the constructor, failing path)."""
    fprobe = land.run_cases([{'script': WARM + [{'op': 'land_inproc', 'arm': dict(F_ARM, cls='RemoteWorker')}, create_op('R'),
                                                {'op': 'land_inproc_report'}, {'op': 'call', 'var': 'w', 'method': 'terminate', 'args': [3]}]},
                             {'script': WARM + [{'op': 'land_inproc', 'arm': dict(F_ARM, cls='RemoteWorker')},
                                                {'op': 'fake_server', 'phase': 'addr', 'cut': 5, 'ending': 'FIN'}, create_op('R', host='fake'),
                                                {'op': 'land_inproc_report'}]}], case_timeout=60, nproc=2)
    ok_sites = fprobe[0]['steps'][6]['ret']['sites'] if len(fprobe[0].get('steps', [])) > 6 else []
    fail_sites = fprobe[1]['steps'][7]['ret']['sites'] if len(fprobe[1].get('steps', [])) > 7 else []
    n_ok = 0
    ln = line_of('remote.py', "logger.debug('Received info package from the backend, signalling the main thread that everything is fine')")
    for i, st in enumerate(ok_sites):
        if st[0] == 'remote.py' and st[1] == ln:
            n_ok = i + 1
            break
    else:
        n_ok = len(ok_sites)
    return ok_sites, n_ok, fail_sites


def thin_points(sites, n, quick):
    ks = [i + 1 for i in range(n) if sites[i][2] == '_run_frontend' or i == 0 or i == n - 1 or
          (sites[i - 1][2] == '_run_frontend') or (i + 1 < n and sites[i + 1][2] == '_run_frontend')]
    return ks if quick else list(range(1, n + 1))


def server_stopped_while_parent_held(kind, k, how='sigterm'):
    arm = dict(F_ARM, cls=CLS[kind])
    return WARM + [{'op': 'land_inproc', 'arm': arm, 'events': [{'k': k, 'action': 'pause', 'cap': 20}]},
                   {'op': 'respawn_server'}, dict(create_op(kind), op='create_async', timeout=25),
                   {'op': 'wait_reached', 'timeout': 8, 'tag': 'reached'}, {'op': 'server_stop', 'how': how, 'tag': 'stop'},
                   {'op': 'land_release'}, {'op': 'join_create', 'var': 'w', 'timeout': 15, 'tag': 'ctor', 'stop_on_hang': False},
                   {'op': 'land_inproc_report'}, {'op': 'respawn_server'}]


def run(ctx):
    ctx.rule = ('fault = (kind, what, where): scripted-peer truncation (message, byte offset, FIN|RST), refused control port, unknown '
                'context, child/backend fault (kill|raise) at line event k before the identity report, server kill at line event k of '
                'its handshake; one constructor call per fault; distinct = the tuple')
    jobs, plan = [], []

    def add(script, **meta):
        jobs.append({'script': script})
        plan.append(meta)
    # --- learn message lengths and base paths ----------------------------------------------------------------------
    probe = [{'script': [{'op': 'fake_server', 'phase': 'addr', 'cut': 0, 'ending': 'FIN'}]}]
    for kind in ('P', 'PP'):
        probe.append({'script': [{'op': 'land_spec', 'arm': dict(P_ARM, cls=CLS[kind])}, create_op(kind),
                                 {'op': 'call', 'var': 'w', 'method': 'wait', 'args': [10]}, {'op': 'land_report'}, {'op': 'land_off'}]})
    for kind in ('R', 'PR'):
        probe.append({'script': [{'op': 'land_spec', 'arm': dict(R_ARM, cls=CLS[kind])}, create_op(kind),
                                 {'op': 'call', 'var': 'w', 'method': 'wait', 'args': [10]}, {'op': 'land_report'}, {'op': 'land_off'}]})
    probe.append({'script': [{'op': 'land_spec', 'arm': S_ARM}, {'op': 'respawn_server'}, create_op('R'),
                             {'op': 'call', 'var': 'w', 'method': 'wait', 'args': [10]}, {'op': 'land_report'}, {'op': 'land_off'}, {'op': 'respawn_server'}]})
    pres = land.run_cases(probe, case_timeout=120, nproc=6)
    lens = pres[0]['steps'][0]['ret']
    pid_line = line_of('process.py', P_ID_TEXT)
    rid_line = line_of('remote.py', R_ID_TEXT)

    def upto(sites, fname, line):
        for i, s in enumerate(sites):
            if s[0] == fname and s[1] == line:
                return i + 1
        return len(sites)
    base = {}
    for kind, r in zip(('P', 'PP', 'R', 'PR'), pres[1:5]):
        sites = r['steps'][3]['ret']['sites']
        base[kind] = upto(sites, 'process.py' if kind in ('P', 'PP') else 'remote.py', pid_line if kind in ('P', 'PP') else rid_line)
        if not sites:
            ctx.selftest_fail('no fault points recorded for %s (tracer not armed)' % kind)
    srv_sites = pres[5]['steps'][4]['ret']['sites']
    if not srv_sites:
        ctx.selftest_fail('no fault points recorded in the server (tracer not armed)')
    ctx.extra['fault_points'] = dict(base, server=len(srv_sites), addr_msg_bytes=lens['addr_len'], info_msg_bytes=lens['info_len'])
    # --- A: scripted peer ---------------------------------------------------------------------------------------------
    for kind in ('R', 'PR'):
        for phase, n in (('addr', lens['addr_len']), ('info', lens['info_len'])):
            for cut in range(0, n):
                for ending in ('FIN', 'RST'):
                    add([{'op': 'fake_server', 'phase': phase, 'cut': cut, 'ending': ending}, create_op(kind, host='fake')] + after_create(kind),
                        part='scripted-peer', kind=kind, what='%s-message-cut' % phase, where=cut, ending=ending, expect='raise')
        add([{'op': 'fake_server', 'phase': 'info', 'cut': 0, 'ending': 'FIN', 'ctrl': 'closed-port'}, create_op(kind, host='fake')] + after_create(kind),
            part='scripted-peer', kind=kind, what='control-port-refused', where=0, ending='-', expect='raise')
        add([create_op(kind, host=['127.0.0.1', 1])], part='unreachable', kind=kind, what='server-port-closed', where=0, ending='-', expect='raise')
        add([dict(create_op(kind), target=None, ctor={'context': 'no-such-context'}), {'op': 'server_alive', 'tag': 'server'}, {'op': 'probe', 'tag': 'probe'}],
            part='unknown-context', kind=kind, what='unknown-context', where=0, ending='-', expect='raise')
    # --- C/D: child / backend dies or fails before reporting its identity -------------------------------------------------
    for kind in ('P', 'PP', 'R', 'PR'):
        arm = dict(P_ARM if kind in ('P', 'PP') else R_ARM, cls=CLS[kind])
        for k in range(1, base[kind] + 1):
            for action in ('sigkill', 'raise'):
                sc = [{'op': 'land_spec', 'arm': arm, 'events': [{'k': k, 'action': action}]}, create_op(kind)] + after_create(kind) + [{'op': 'land_off'}]
                if kind in ('R', 'PR'):
                    sc += [{'op': 'server_children', 'tag': 'children', 'after': 0.5}, {'op': 'server_alive', 'tag': 'server'}, {'op': 'probe', 'tag': 'probe'}]
                add(sc, part='child-fault', kind=kind, what='child-%s-before-identity' % action, where=k, ending='-', expect='any')
    # --- E: the server dies at every line of its side of the handshake ---------------------------------------------------
    nsrv = len(srv_sites)
    ks = list(range(1, nsrv + 1))
    if ctx.quick:
        from ..land import select_points
        ks = select_points([s[:3] for s in srv_sites], False)
        if len(ks) > 60:
            ks = ks[::max(1, len(ks) // 60)]
    for k in ks:
        add([{'op': 'land_spec', 'arm': S_ARM, 'events': [{'k': k, 'action': 'sigkill'}]}, {'op': 'respawn_server'}, create_op('R')] + after_create('R') +
            [{'op': 'land_off'}, {'op': 'respawn_server'}],
            part='server-killed', kind='R', what='server-killed-during-handshake', where=k, ending='-', expect='any')
    # --- F/G: the parent itself is held at every line of its side of the handshake -------------------------------------------
    ok_sites, n_ok, fail_sites = parent_paths()
    if not ok_sites or not fail_sites:
        ctx.selftest_fail('no preemption points recorded in the parent frontend thread')
    ctx.extra['fault_points'].update(parent_handshake=n_ok, parent_failure_path=len(fail_sites))

    def thin(sites, n):
        return thin_points(sites, n, ctx.quick)
    for kind in ('R', 'PR'):
        arm = dict(F_ARM, cls=CLS[kind])
        for k in thin(ok_sites, n_ok):
            # F: the server is stopped (SIGTERM) while the parent is held at line event k of its handshake
            add(server_stopped_while_parent_held(kind, k),
                part='server-stopped-while-parent-held', kind=kind, what='server-sigterm-while-parent-at-line', where=k, ending='-', expect='any')
        for k in thin(fail_sites, len(fail_sites)):
            # G: a failing start-up with the parent thread preempted at line event k (the constructor must still raise)
            add(WARM + [{'op': 'land_inproc', 'arm': arm, 'events': [{'k': k, 'action': 'sleep', 'seconds': 0.15}]},
                 {'op': 'fake_server', 'phase': 'addr', 'cut': 5, 'ending': 'FIN'}, create_op(kind, host='fake'), {'op': 'land_inproc_report', 'tag': 'inproc'}],
                part='failing-startup-parent-preempted', kind=kind, what='addr-cut-with-parent-preempted-at-line', where=k, ending='FIN', expect='raise')
    res = land.run_cases(jobs, case_timeout=90)
    harness = 0
    for meta, job, obs in zip(plan, jobs, res):
        ctx.count()
        ctx.distinct((meta['part'], meta['kind'], meta['what'], meta['where'], meta['ending']))
        bad = None
        if obs.get('driver_hang') or obs.get('driver_error'):
            harness += 1
            ctx.extra.setdefault('harness_anomalies', []).append({'meta': meta, 'why': str(obs.get('driver_hang') or obs.get('driver_error'))[:100]})
            continue
        steps = {}
        cstep = None
        for op, st in zip(job['script'], obs['steps']):
            if (op['op'] == 'create' and not str(op.get('var', '')).startswith('warm')) or op['op'] == 'join_create':
                cstep = st
            if op.get('tag'):
                steps[op['tag']] = st
        if meta['part'] == 'server-stopped-while-parent-held' and steps.get('reached', {}).get('ret') is not True:
            ctx.outcome('%s:%s:not-reached' % (meta['part'], meta['kind']))
            continue
        if meta['part'] == 'failing-startup-parent-preempted' and not (steps.get('inproc', {}).get('ret') or {}).get('landed'):
            ctx.outcome('%s:%s:beyond-end' % (meta['part'], meta['kind']))
            ctx.extra['preemption_beyond_end'] = ctx.extra.get('preemption_beyond_end', 0) + 1
            continue
        if cstep is None:
            harness += 1
            continue
        if cstep.get('hang'):
            bad = ('constructor-hangs', cstep)
        elif meta['expect'] == 'raise' and 'exc' not in cstep:
            bad = ('constructor-returns-a-worker-without-a-child', cstep)
        elif 'ret' in cstep:
            # a worker came back: its id must describe the child that was really started
            if meta['kind'] in ('P', 'PP') and steps.get('pid', {}).get('ret') != steps.get('child_pid', {}).get('ret'):
                bad = ('id-does-not-describe-the-started-child', {'pid': steps.get('pid'), 'child_pid': steps.get('child_pid')})
            elif steps.get('terminate', {}).get('hang'):
                bad = ('returned-worker-cannot-be-terminated', steps.get('terminate'))
        if bad is None and meta['part'] in ('child-fault', 'unknown-context'):
            if 'server' in steps and steps['server'].get('ret') is not True:
                bad = ('server-died', steps['server'])
            elif 'probe' in steps and steps['probe'].get('ret') != [True, 49]:
                bad = ('server-does-not-serve-afterwards', steps['probe'])
            elif 'children' in steps and steps['children'].get('ret'):
                bad = ('backend-process-left-behind', steps['children'])
        ctx.outcome('%s:%s:%s' % (meta['part'], meta['kind'], bad[0] if bad else ('raises' if 'exc' in cstep else 'returns')))
        if bad:
            where = meta['what'] if meta['part'] != 'scripted-peer' else '%s-%s' % (meta['what'], meta['ending'])
            ctx.violation('%s/%s/%s/%s' % ('STREAM' if meta['part'] in ('scripted-peer', 'unreachable') else 'LAND', meta['kind'], where, bad[0]),
                          meta, bad[1], 'the constructor returns a usable worker or raises', engine='STREAM+LAND')
    ctx.sample({'fault': plan[3], 'script': jobs[3]['script']})
    ctx.sample({'fault': plan[-1]})
    ctx.extra['faults'] = len(jobs)
    if harness > 5:
        ctx.selftest_fail('%d harness anomalies' % harness)


def replay(ctx, rec):
    print('C20 replay: re-run the check; failing fault:', rec['case'])
    run(ctx)
