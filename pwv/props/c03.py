"""C03 - graceful terminate interrupts the target wherever it is and is reported as such (LAND, faithful mode)."""
import os

from .. import land

LEVEL = 'fault_enumeration'
ENGINE = 'LAND'
TECHNIQUE = 'exhaustive enumeration of the line-level landing points of the asynchronous terminate request inside the real child (deviation bound 1), each delivered through the real terminate path with the child held at that point; plus the caller preempted at each line of its own terminate() and the control threads (child, backend, server) held at each of their lines while the worker ends on its own'
LEVEL_TEXT = ('for each of the six worker classes and each target phase the base path of the child is recorded (complete landing alphabet for that path), then one real run per landing point: the child is paused at the point, the parent calls the real terminate(), the real control path posts the real async exception, the child resumes; oracle by landing site: inside the target => terminate True, dead, has_error True, result None, WorkerTerminatedError, finally blocks ran; elsewhere => the target own outcome or the WorkerTerminatedError outcome, never a third one')
LEVEL_NOTE = 'one asynchronous request per run; quick tier collapses callee frames outside the anchored run-loop functions to their first and last line; parent-side timing is whatever the OS does while the child is held still'

REPO = os.environ.get('PWV_REPO', '/repo')
WTE = {'exc': 'WorkerTerminatedError', 'args': ['terminate called']}


def scenarios(quick):
    out = []
    for kind in ('T', 'P', 'R'):
        for tgt in ('t_loop', 't_tryfinally', 't_ret_now', 't_raise'):
            out.append({'kind': kind, 'target': tgt, 'phase': tgt})
    for kind in ('PT', 'PP', 'PR'):
        out.append({'kind': kind, 'target': 'p_echo', 'inputs': [1, 2], 'close': True, 'phase': 'two-items-then-close'})
        out.append({'kind': kind, 'target': 'p_echo', 'inputs': [], 'close': True, 'phase': 'closed-at-once'})
    return out


def idle_cases():
    out = []
    for kind in ('PT', 'PP', 'PR'):
        for n in (0, 1):
            out.append({'kind': kind, 'target': 'p_echo', 'inputs': list(range(1, n + 1)), 'close': False, 'idle_terminate': True,
                        'phase': 'idle-waiting-for-input', 'events': []})
    return out


PARENT_ARM = {'file': 'thread.py', 'func': 'terminate', 'line_text': 'if timeout < 0:'}


def preempted_parent_scenarios():
    """The caller of terminate() is preempted (sleeps) at each line of its own call: everything else gets time to run."""
    out = []
    out.append({'kind': 'T', 'target': 't_spin', 'phase': 'parent-preempted/busy', 'parent_arm': PARENT_ARM, 'observe': 'terminate', 'timeout': 5})
    # the thread ends on its own while the caller is held inside terminate()
    out.append({'kind': 'T', 'target': 't_ret_50ms', 'phase': 'parent-preempted/ending-on-its-own', 'parent_arm': PARENT_ARM, 'observe': 'terminate', 'timeout': 5})
    out.append({'kind': 'PT', 'target': 'p_echo', 'inputs': [], 'close': False, 'idle_terminate': True, 'phase': 'parent-preempted/idle',
                'parent_arm': PARENT_ARM, 'timeout': 5})
    out.append({'kind': 'PT', 'target': 'p_echo', 'inputs': [1], 'close': False, 'idle_terminate': True, 'phase': 'parent-preempted/idle-after-one',
                'parent_arm': PARENT_ARM, 'timeout': 5})
    return out


# ---- terminate() meets a worker which is ending on its own, with one of the control threads held at each of its lines ---------
CTRL_ARMS = {
    'P': [('child-control-thread', {'file': 'process.py', 'func': '_ctrl_fn', 'cls': 'ProcessWorker', 'line_text': 'sig = self._ctrl_comms.child_end.recv()'})],
    'PP': [('child-control-thread', {'file': 'process.py', 'func': '_ctrl_fn', 'cls': 'PersistentProcessWorker', 'line_text': 'sig = self._ctrl_comms.child_end.recv()'})],
    'R': [('child-control-thread', {'file': 'remote.py', 'func': '_ctrl_fn_local', 'cls': 'RemoteWorker', 'line_text': 'sig = self._ctrl_comms.child_end.recv()'}),
          ('server-control-thread', {'file': 'remote.py', 'func': '_ctrl_fn_remote', 'cls': 'RemoteWorker', 'line_text': 'ready = mp.connection.wait([self._ctrl_sock, self._child.sentinel])'})],
    'PR': [('child-control-thread', {'file': 'remote.py', 'func': '_ctrl_fn_local', 'cls': 'PersistentRemoteWorker', 'line_text': 'sig = self._ctrl_comms.child_end.recv()'}),
           ('server-control-thread', {'file': 'remote.py', 'func': '_ctrl_fn_remote', 'cls': 'PersistentRemoteWorker', 'line_text': 'ready = mp.connection.wait([self._ctrl_sock, self._child.sentinel])'})],
}


def ctrl_held_script(kind, arm, k, call):
    pers = len(kind) == 2
    sc = [{'op': 'land_spec', 'arm': arm, 'events': ([{'k': k, 'action': 'pause', 'cap': 0.6}] if k else [])}]
    if kind in ('R', 'PR'):
        sc.append({'op': 'respawn_server'})
    if pers:
        sc += [{'op': 'create', 'var': 'w', 'kind': kind, 'target': 'slow_echo', 'kwargs': {'delay': 0.2}},
               {'op': 'call', 'var': 'w', 'method': 'enqueue', 'args': ['a']},
               {'op': 'call', 'var': 'w', 'method': 'close'}]
    else:
        sc += [{'op': 'create', 'var': 'w', 'kind': kind, 'target': 'ret_after', 'kwargs': {'delay': 0.25}}]
    if k:
        sc.append({'op': 'wait_reached', 'timeout': 8, 'tag': 'reached'})
    else:
        sc.append({'op': 'sleep', 's': 0.5})
    if call == 'terminate':
        sc.append({'op': 'call', 'var': 'w', 'method': 'terminate', 'kwargs': {'timeout': 4, 'force': False}, 'timeout': 30, 'tag': 'call'})
    elif call == 'wait':
        sc.append({'op': 'call', 'var': 'w', 'method': 'wait', 'args': [4], 'timeout': 30, 'tag': 'call'})
    else:
        sc.append({'op': 'call', 'var': 'w', 'method': 'is_alive', 'timeout': 30, 'tag': 'call'})
    sc += [{'op': 'poll_dead', 'var': 'w', 'timeout': 10, 'tag': 'dead'},
           {'op': 'get', 'var': 'w', 'attr': 'has_error', 'tag': 'has_error'},
           {'op': 'get', 'var': 'w', 'attr': 'result', 'tag': 'result'},
           {'op': 'get', 'var': 'w', 'attr': 'error', 'tag': 'error'},
           {'op': 'land_report', 'tag': 'report'}, {'op': 'land_off'}]
    return sc


def idle_terminate_script(kind, arm, k):
    """terminate() of an idle persistent worker with the control thread which handles the request preempted at each of its lines."""
    sc = [{'op': 'land_spec', 'arm': arm, 'events': ([{'k': k, 'action': 'sleep', 'seconds': 0.5}] if k else [])}]
    if kind == 'PR':
        sc.append({'op': 'respawn_server'})
    sc += [{'op': 'create', 'var': 'w', 'kind': kind, 'target': 'slow_echo', 'kwargs': {'delay': 0.0}},
           {'op': 'call', 'var': 'w', 'method': 'enqueue', 'args': ['a']},
           {'op': 'call', 'var': 'w', 'method': 'next_result', 'kwargs': {'timeout': 8}, 'timeout': 10, 'tag': 'warm'},
           {'op': 'call', 'var': 'w', 'method': 'terminate', 'kwargs': {'timeout': 5, 'force': False}, 'timeout': 30, 'tag': 'call'},
           {'op': 'poll_dead', 'var': 'w', 'timeout': 10, 'tag': 'dead'},
           {'op': 'get', 'var': 'w', 'attr': 'has_error', 'tag': 'has_error'},
           {'op': 'get', 'var': 'w', 'attr': 'result', 'tag': 'result'},
           {'op': 'get', 'var': 'w', 'attr': 'error', 'tag': 'error'},
           {'op': 'land_report', 'tag': 'report'}, {'op': 'land_off'}]
    return sc


def judge_idle_terminate(sc, obs):
    if obs.get('driver_hang') or obs.get('driver_error'):
        return ('harness', obs.get('driver_hang') or obs.get('driver_error'))
    t = {}
    for op, st in zip(sc, obs['steps']):
        if op.get('tag'):
            t[op['tag']] = st
        if st.get('harness_error'):
            return ('harness', st)
    if t.get('warm', {}).get('ret') != ['a']:
        return ('harness', t.get('warm'))
    c = t.get('call', {})
    if c.get('hang'):
        return ('terminate-hangs', None)
    if 'exc' in c:
        return ('terminate-raises-%s' % c['exc'], c)
    if c.get('ret') is not True:
        return ('terminate-returned-%s' % c.get('ret'), c)
    if t.get('dead', {}).get('ret') is not True:
        return ('worker-not-dead', t.get('dead'))
    out = (t['has_error'].get('ret'), t['result'].get('ret'), t['error'].get('ret'))
    if out == (True, None, WTE):
        return None
    return ('third-outcome:' + describe(out), {'outcome': str(out)[:200]})


def idle_terminate_part(ctx):
    arms = [('PP', CTRL_ARMS['PP'][0][1]), ('PR', CTRL_ARMS['PR'][0][1])]
    bases = land.run_cases([{'script': idle_terminate_script(kind, arm, 0)} for kind, arm in arms], case_timeout=120)
    jobs, plan = [], []
    for (kind, arm), b in zip(arms, bases):
        sc0 = idle_terminate_script(kind, arm, 0)
        rep = [st for op, st in zip(sc0, b.get('steps', [])) if op.get('tag') == 'report']
        sites = (rep[0].get('ret') or {}).get('sites', []) if rep else []
        if not sites:
            ctx.selftest_fail('no point recorded in the control thread of an idle %s worker being terminated' % kind)
            continue
        for k in range(1, len(sites) + 1):
            sc = idle_terminate_script(kind, arm, k)
            jobs.append({'script': sc})
            plan.append((kind, k, sc, sites[k - 1]))
    res = land.run_cases(jobs, case_timeout=120)
    ctx.extra['idle_terminate_control_thread_preempted_runs'] = len(jobs)
    for (kind, k, sc, site), o in zip(plan, res):
        ctx.count()
        ctx.distinct(('idle-terminate-ctrl-preempted', kind, k))
        v = judge_idle_terminate(sc, o)
        ctx.outcome('%s:idle-terminate-ctrl-preempted:%s' % (kind, v[0] if v else 'ok'))
        if v is None:
            continue
        if v[0] == 'harness':
            ctx.extra.setdefault('harness_anomalies', []).append({'idle-terminate': [kind, k], 'why': str(v[1])[:160]})
            continue
        ctx.violation('LAND/%s/idle-waiting-for-input/control-thread-preempted@%s/%s' % (kind, land.site_sig(site, REPO), v[0]),
                      {'kind': kind, 'k': k, 'site': site, 'script': sc, 'call': 'idle-terminate'}, v[1],
                      'terminate True, the idle worker ends with WorkerTerminatedError', engine='LAND')


def judge_ctrl_held(kind, sc, obs, call):
    if obs.get('driver_hang') or obs.get('driver_error'):
        return ('harness', obs.get('driver_hang') or obs.get('driver_error'))
    t = {}
    for op, st in zip(sc, obs['steps']):
        if op.get('tag'):
            t[op['tag']] = st
        if st.get('harness_error'):
            return ('harness', st)
    if 'reached' in t and t['reached'].get('ret') is not True:
        return ('beyond-end', None)
    c = t.get('call', {})
    if c.get('hang'):
        return ('%s-hangs' % call, None)
    if 'exc' in c:
        return ('%s-raises-%s' % (call, c['exc']), c)
    if call in ('terminate', 'wait') and c.get('ret') is not True:
        return ('%s-returned-%s' % (call, c.get('ret')), c)
    if t.get('dead', {}).get('ret') is not True:
        return ('worker-not-dead', t.get('dead'))
    out = (t['has_error'].get('ret'), t['result'].get('ret'), t['error'].get('ret'))
    own = (False, 1, None) if len(kind) == 2 else (False, 5, None)
    if out == own or (call == 'terminate' and out == (True, None, WTE)):
        return None
    return ('third-outcome:' + describe(out), {'outcome': str(out)[:200]})


def ctrl_held_part(ctx):
    jobs, plan = [], []
    for kind, arms in CTRL_ARMS.items():
        for name, arm in arms:
            jobs.append({'script': ctrl_held_script(kind, arm, 0, 'terminate')})
            plan.append((kind, name, arm))
    bases = land.run_cases(jobs, case_timeout=120)
    jobs2, plan2 = [], []
    for (kind, name, arm), b in zip(plan, bases):
        sc = ctrl_held_script(kind, arm, 0, 'terminate')
        rep = [st for op, st in zip(sc, b.get('steps', [])) if op.get('tag') == 'report']
        sites = (rep[0].get('ret') or {}).get('sites', []) if rep else []
        if not sites:
            ctx.selftest_fail('no point recorded in the %s of %s' % (name, kind))
            continue
        ctx.sample({'part': 'control thread held', 'kind': kind, 'thread': name, 'points': len(sites)})
        for k in range(1, len(sites) + 1):
            for call in (('terminate',) if ctx.quick else ('terminate', 'wait', 'is_alive')):
                sc = ctrl_held_script(kind, arm, k, call)
                jobs2.append({'script': sc})
                plan2.append((kind, name, k, call, sc, sites[k - 1]))
    res = land.run_cases(jobs2, case_timeout=120)
    ctx.extra['control_thread_held_runs'] = len(jobs2)
    for (kind, name, k, call, sc, site), o in zip(plan2, res):
        ctx.count()
        ctx.distinct(('ctrl-held', kind, name, k, call))
        v = judge_ctrl_held(kind, sc, o, call)
        ctx.outcome('%s:%s-held:%s' % (kind, name, v[0] if v else 'ok'))
        if v is None or v[0] == 'beyond-end':
            continue
        if v[0] == 'harness':
            ctx.extra.setdefault('harness_anomalies', []).append({'ctrl-held': [kind, name, k], 'why': str(v[1])[:160]})
            continue
        ctx.violation('LAND/%s/ending-on-its-own/%s-held@%s/%s/%s' % (kind, name, land.site_sig(site, REPO), call, v[0]),
                      {'kind': kind, 'thread': name, 'k': k, 'call': call, 'site': site, 'script': sc}, v[1],
                      'the call returns True without raising, the worker ends with its own outcome', engine='LAND')


def own_outcomes(case):
    """The outcomes the target produces on its own: list of (has_error, result, error)."""
    t = case['target']
    if t in ('t_loop', 't_tryfinally', 't_ret_now', 't_ret_50ms'):
        return [(False, 7, None)]
    if t in ('t_raise', 't_raise_now'):
        return [(True, None, {'exc': 'ValueError', 'args': ['a', 1]})]
    if t == 'p_echo':
        # left alone the worker processes every input and ends when it is closed; a worker which is never closed has no outcome
        # of its own (a normal return with fewer results is a termination reported as a success)
        return [(False, len(case.get('inputs', [])), None)] if case.get('close') else []
    if t == 't_spin':
        return []
    return []


def judge(case, obs, site):
    """Returns None or (what, detail)."""
    if obs.get('driver_hang') or obs.get('driver_error'):
        return ('harness', obs.get('driver_hang') or obs.get('driver_error'))
    if obs.get('ctor') != 'ok':
        return ('constructor-' + str(obs.get('ctor')), None)
    if obs.get('not_reached'):
        return ('beyond-end', None)     # this run's path ended before event k (paths differ by a line or two between runs)
    tr = (obs.get('terminate_ret') or [None])[0]
    if case.get('parent_arm') and case.get('observe') == 'terminate':
        tr = obs.get('death')            # death is observed through the preempted terminate() call itself
    if tr is not True:
        return ('terminate-returned-%s' % tr, None)
    rounds = obs.get('rounds') or []
    if not rounds:
        return ('harness', 'no accessor rounds, stage %s' % obs.get('stage'))
    alive, he, res, err = rounds[-1]
    for v in rounds[-1]:
        if isinstance(v, str) and (v.startswith('RAISES:') or v == 'HANG'):
            return ('accessor-' + v, None)
    if alive is not False:
        return ('still-alive', None)
    out = (he, res, err)
    wte = (True, None, WTE)
    in_target = site is not None and site[0] in ('targets.py',)
    if in_target:
        if out != wte:
            return ('in-target:' + describe(out), None)
        if case['target'] == 't_tryfinally' and 'try#1.body' in land.site_sig(site, REPO) and not obs.get('marker'):
            return ('in-target:finally-did-not-run', None)
        return None
    if out == wte or out in own_outcomes(case):
        return None
    return ('third-outcome:' + describe(out), None)


def describe(out):
    he, res, err = out
    e = 'None' if err is None else (err.get('exc') if isinstance(err, dict) else str(err))
    return 'has_error=%s,result=%s,error=%s' % (he, 'None' if res is None else 'value', e)


def run(ctx):
    full = not ctx.quick
    ctx.rule = ('scenario = worker class x target phase; landing alphabet = every LINE event of the child working thread in pyworkers/* '
                'and the harness target from construction-complete to exit along the scenario base path (quick: callee frames outside '
                'the run-loop functions collapsed to first/last line); one real terminate per landing point; distinct = (scenario, k)')
    ctx.assumptions = ['the tracer pauses the child inside a sys.monitoring LINE callback; the async exception posted by the real control path is '
                       'raised by the interpreter when the callback returns, i.e. at that line',
                       'CPython delivers async exceptions at eval-breaker checks; every line start is treated as a possible delivery point']
    scs = scenarios(ctx.quick)
    bases, runs = land.sweep(scs, ['terminate'], full=full)
    runs += land.run_cases(idle_cases())
    # the same scenarios with the other landing alphabet: right after every call made by the run-loop functions and the target has
    # returned (differs from the start of the next line where that line lies in another try range); short paths: every point
    post_scs = [dict(s_, post_call=True) for s_ in scs]
    pbases, pruns = land.sweep(post_scs, ['terminate'], full=True)
    for b, s_ in zip(pbases, post_scs):
        if not b.get('events_total'):
            ctx.selftest_fail('post-call base path of %s/%s produced no landing point' % (s_['kind'], s_['target']))
    ctx.extra['post_call_landing_runs'] = len(pruns)
    runs += pruns
    # parent-side preemption points of ThreadWorker.terminate (the only terminate that raises and releases from the caller's thread)
    pb, pr = land.sweep(preempted_parent_scenarios(), lambda s_: ['sleep'], full=True)
    for b in pb:
        if not b.get('events_total'):
            ctx.selftest_fail('no preemption point recorded in the parent terminate() call')
    runs += pr
    ctrl_held_part(ctx)
    idle_terminate_part(ctx)
    nbad_harness = 0
    uncovered = {}
    for b, s in zip(bases, scs):
        ctx.sample({'scenario': {k: s[k] for k in ('kind', 'target', 'phase')}, 'landing_points_on_base_path': b.get('events_total')}) if s['kind'] in ('P', 'PR') and s.get('target') in ('t_raise', 'p_echo') else None
        if not b.get('events_total'):
            ctx.selftest_fail('base path of %s/%s produced no landing point (tracer not armed?)' % (s['kind'], s['target']))
    for obs in runs:
        case = obs['case']
        site = ((obs.get('landed') or [{}])[0].get('site')) or case.get('_site')      # where it really landed in this run
        ctx.count()
        ev = case.get('events') or [{}]
        ctx.distinct((case['kind'], case['target'], case.get('phase'), ev[0].get('k') if ev else None, bool(case.get('post_call'))))
        v = judge(case, obs, site)
        ssig = land.site_sig(site, REPO) if site else 'blocked-waiting-for-input'
        landed = (obs.get('landed') or [{}])[0]
        ctx.outcome('%s:%s' % (case['kind'], (v[0] if v else 'ok')))
        if v is None:
            continue
        if v[0] == 'beyond-end':
            ctx.extra['landing_beyond_end_of_path'] = ctx.extra.get('landing_beyond_end_of_path', 0) + 1
            continue
        if v[0] == 'harness':
            nbad_harness += 1
            ctx.extra.setdefault('harness_anomalies', []).append({'case': {k: case.get(k) for k in ('kind', 'target', 'events')}, 'why': v[1]})
            continue
        sig = 'LAND/%s/%s/terminate@%s/%s' % (case['kind'], case.get('phase'), ssig, v[0])
        ctx.violation(sig, {'kind': case['kind'], 'target': case['target'], 'phase': case.get('phase'), 'inputs': case.get('inputs'),
                            'events': case.get('events'), 'site': site, 'release': landed.get('release'), 'post_call': case.get('post_call')},
                      {'terminate_ret': obs.get('terminate_ret'), 'rounds': (obs.get('rounds') or [None])[-1], 'marker': obs.get('marker')},
                      'terminate True, dead, target own outcome or WorkerTerminatedError outcome (strictly the latter inside the target)', engine='LAND')
    if nbad_harness > max(3, len(runs) // 50):
        ctx.selftest_fail('%d harness anomalies (landing not reached / driver hang)' % nbad_harness)
    ctx.extra['landing_runs'] = len(runs)
    ctx.extra['scenarios'] = len(scs)


def replay(ctx, rec):
    c = rec['case']
    if 'script' in c:
        obs = land.run_cases([{'script': c['script']}], case_timeout=120)[0]
        ctx.count()
        v = judge_idle_terminate(c['script'], obs) if c.get('call') == 'idle-terminate' else judge_ctrl_held(c['kind'], c['script'], obs, c['call'])
        for op, st in zip(c['script'], obs.get('steps', [])):
            print(op.get('tag', op['op']), str(st)[:160])
        print('verdict:', v)
        if v and v[0] not in ('harness', 'beyond-end'):
            ctx.violation(rec['signature'], c, v[1], rec.get('expected'), engine='LAND')
        return
    case = {k: c[k] for k in ('kind', 'target', 'phase', 'inputs', 'events', 'post_call') if c.get(k) is not None}
    if case['kind'].startswith('P') and len(case['kind']) == 2:
        case['close'] = c.get('phase') != 'idle-waiting-for-input'
        if not case['close']:
            case['idle_terminate'] = True
    obs = land.run_cases([case])[0]
    ctx.count()
    v = judge(case, obs, c.get('site'))
    print('replayed:', {k: obs.get(k) for k in ('terminate_ret', 'rounds', 'marker', 'landed', 'stage')})
    print('verdict:', v)
    if v and v[0] != 'harness':
        ctx.violation(rec['signature'], c, {'rounds': (obs.get('rounds') or [None])[-1]}, rec.get('expected'), engine='LAND')
