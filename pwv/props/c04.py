"""C04 - wait/terminate are bounded, truthful, idempotent - even on unresponsive children (SEQ + wall clock)."""
import os
import tempfile
import itertools

from .. import land

LEVEL = 'exploration'
ENGINE = 'SEQ'
TECHNIQUE = 'bounded exhaustive enumeration of call histories (wait/terminate/is_alive/close with timeouts 0 and small, with and without force) over every target behaviour (cooperative, swallowing exceptions, blocked in sleep, holding the interpreter lock in C, SIGSTOPped, finished, ended unobserved with the k-th control message of the parent finding the connection gone, finished but kept alive by a thread left behind, dying of an exception, not run, idle) and every worker class, on real workers'
LEVEL_TEXT = ('every history up to the depth bound over the call alphabet x behaviours x the six classes is executed on real workers; per-call oracle: returns within 4*timeout+3 s, never raises, a True answer (or is_alive False) is checked against the real state of the child (thread not alive / pid gone or zombie), after the first observation of death every call answers True at once, terminate(force=True) on process/remote kinds leaves the child dead on return')
LEVEL_NOTE = 'wall-clock bounds are generous (3 s + 4*timeout) and scaled by a measured load factor; thread kinds cannot run the behaviours that would freeze or stop the checker process itself; terminate(force=True) is not issued where its documented last resort is to SIGTERM the calling process'

T = 0.3
CALLS = {
    'w0': ('wait', [0], {}), 'wt': ('wait', [T], {}),
    't0': ('terminate', [], {'timeout': 0, 'force': False}), 'tt': ('terminate', [], {'timeout': T, 'force': False}),
    'tf': ('terminate', [], {'timeout': T, 'force': True}),
    'alive': ('is_alive', [], {}), 'close': ('close', [], {}),
}


def behaviours(kind, quick):
    if kind in ('T', 'PT'):
        b = ['cooperative', 'stubborn', 'finished', 'not-run']
    else:
        b = ['cooperative', 'stubborn', 'long_sleep', 'gil_hog', 'stopped', 'finished', 'not-run', 'lingering']
    if len(kind) == 2:
        b.append('idle')
    b += ['dying', 'dying-now']       # the target raises: the calls meet a worker going down on its own (after / without a rendezvous)
    if kind in ('R', 'PR'):
        # the worker has ended on its own, unobserved; the k-th message the parent sends on the control connection finds it gone
        b += ['ended+ctrl-send-1-fails']
        # the worker is ended by a graceful request; the courtesy message which follows the answer finds the connection gone
        b += ['cooperative+release-fails'] + (['idle+release-fails'] if len(kind) == 2 else [])
    return b


def alphabet(kind, beh, quick):
    a = ['w0', 'wt', 't0', 'tt', 'alive']
    if kind in ('P', 'PP'):
        a.append('tf')
    if kind in ('R', 'PR') and (beh in ('finished', 'not-run', 'cooperative', 'idle', 'dying', 'dying-now') or '+' in beh):
        # on the parent side force=True ends in SIGTERM to the calling process when the forwarding thread does not end
        a.append('tf')
    if not quick:
        a.append('close')
    return a


def scripts(quick, tmp):
    out = []
    depth = 2 if quick else 3
    n = 0
    for kind in ('T', 'P', 'R', 'PT', 'PP', 'PR'):
        pers = len(kind) == 2
        for beh in behaviours(kind, quick):
            alpha = alphabet(kind, beh, quick)
            d = depth + (1 if (not quick and kind in ('T', 'PT')) else 0)      # thread kinds are cheap: one level deeper
            for L in range(1, d + 1):
                for hist in itertools.product(alpha, repeat=L):
                    if beh.endswith('+release-fails') and hist[0] not in ('tt', 'tf'):
                        continue      # the second message on the control connection is the release only after a graceful request that worked
                    n += 1
                    rf = os.path.join(tmp, 'ready.%d' % n)
                    target = {'cooperative': 'cooperative', 'stubborn': 'stubborn', 'long_sleep': 'long_sleep', 'gil_hog': 'gil_hog',
                              'stopped': 'cooperative', 'finished': 'quick_ret', 'not-run': 'quick_ret', 'idle': 'quick_ret',
                              'dying': 'raise_soon', 'dying-now': 'raise_soon', 'lingering': 'linger_ret', 'sigign': 'stubborn_sigign',
                              'ended+ctrl-send-1-fails': 'raise_soon', 'cooperative+release-fails': 'cooperative', 'idle+release-fails': 'quick_ret'}[beh]
                    create = {'op': 'create', 'var': 'w', 'kind': kind, 'target': target, 'kwargs': {'ready_file': rf}}
                    sc = [create]
                    if beh == 'not-run':
                        create['run'] = False
                    elif beh == 'finished':
                        if pers:
                            sc += [{'op': 'call', 'var': 'w', 'method': 'wait', 'args': [10]}]
                        else:
                            sc += [{'op': 'call', 'var': 'w', 'method': 'wait', 'args': [10]}]
                    elif beh == 'idle':
                        pass
                    elif beh == 'idle+release-fails':
                        sc += [{'op': 'fail_ctrl_send', 'var': 'w', 'k': 2}]
                    else:
                        if pers:
                            sc += [{'op': 'call', 'var': 'w', 'method': 'enqueue', 'args': [1]}]
                        if beh != 'dying-now':
                            sc += [{'op': 'wait_file', 'path': rf, 'timeout': 10}]
                        if beh.startswith('ended+'):
                            sc += [{'op': 'sleep', 's': 0.3}, {'op': 'child_dead', 'var': 'w', 'kind': kind, 'within': 5.0},
                                   {'op': 'fail_ctrl_send', 'var': 'w', 'k': 1}]
                        if beh == 'cooperative+release-fails':
                            sc += [{'op': 'fail_ctrl_send', 'var': 'w', 'k': 2}]
                        if beh == 'stopped':
                            sc += [{'op': 'kill', 'var': 'w', 'sig': 'STOP'}, {'op': 'sleep', 's': 0.05}]
                        if beh == 'lingering':
                            if pers:
                                sc += [{'op': 'call', 'var': 'w', 'method': 'close'}]
                            sc += [{'op': 'sleep', 's': 0.2}]
                    npre = len(sc)
                    for h in hist:
                        m, a, k = CALLS[h]
                        to = (k.get('timeout', a[0] if a else 0) or 0)
                        sc += [{'op': 'call', 'var': 'w', 'method': m, 'args': a, 'kwargs': k, 'timeout': 4 * to + 3 + 12, 'h': h}] + \
                              ([{'op': 'child_dead', 'var': 'w', 'kind': kind, 'h': 'probe0', 'exiting_counts': True}] if h == 'tf' else []) + [
                               # (after a forced termination the signal has been sent: under load the process may need a moment to go)
                               dict({'op': 'child_dead', 'var': 'w', 'kind': kind, 'h': 'probe', 'exiting_counts': True}, **({'within': 2.0} if h == 'tf' else {}))]
                    out.append({'script': sc, 'kind': kind, 'behaviour': beh, 'history': list(hist), 'npre': npre})
    return out


def judge(case, obs, load):
    if obs.get('driver_hang') or obs.get('driver_error'):
        return [('checker-process-killed-or-hung', obs.get('driver_hang') or obs.get('driver_error'))]
    steps = obs['steps']
    if 'ret' not in steps[0]:
        return [('harness', steps[0])]
    for s in steps[1:case['npre']]:
        if s.get('hang') or 'exc' in s or s.get('ret') is False:
            return [('harness', {'prep': s})]
    kind, beh = case['kind'], case['behaviour']
    known_dead = beh in ('finished', 'not-run') or beh.startswith('ended+')
    i = case['npre']
    for h in case['history']:
        st = steps[i]
        probe0 = None
        if h == 'tf':
            probe0 = steps[i + 1] if i + 1 < len(steps) else {}
            i += 1
        probe = steps[i + 1] if i + 1 < len(steps) else {}
        i += 2
        m, a, k = CALLS[h]
        to = (k.get('timeout', a[0] if a else 0) or 0)
        bound = (4 * to + 3) * load
        if st.get('hang') or st.get('s', 0) > bound:
            return [('%s-not-bounded' % h, {'seconds': st.get('s'), 'bound': bound, 'hang': st.get('hang', False)})]
        if 'exc' in st:
            return [('%s-raises-%s' % (h, st['exc']), st)]
        ret = st.get('ret')
        really_dead = probe.get('ret')
        if beh.endswith('+release-fails') and i <= case['npre'] + 3 and ret is not True:      # (the first call of the history)
            # the premise of this fault is a graceful request which ended the worker (then the second message is the release);
            # under load the first request may time out instead, and the second message is a request: outside the premise
            return []
        if h == 'close':
            continue
        says_dead = (ret is False) if h == 'alive' else (ret is True)
        if says_dead and really_dead is not True:
            return [('%s-says-dead-but-child-is-running' % h, {'call': st, 'probe': probe})]
        if known_dead:
            if not says_dead:
                return [('%s-on-dead-worker-says-alive' % h, st)]
            if st.get('s', 0) > 1.0 * load:
                return [('%s-on-dead-worker-slow' % h, st)]
        if h == 'tf' and ret is False and probe0 is not None and probe0.get('ret') is True:
            # the child was gone the instant the call came back saying "not dead"
            return [('forced-terminate-says-alive-about-a-child-which-is-gone', {'call': st, 'probe': probe0})]
        if h == 'tf' and kind in ('P', 'PP', 'R', 'PR') and really_dead is not True:
            return [('forced-terminate-left-the-child-running', {'call': st, 'probe': probe})]
        if says_dead:
            known_dead = True
    return []


def run(ctx):
    import time
    ctx.rule = ('history = sequence of calls from {wait(0), wait(t), terminate(0), terminate(t), terminate(t, force), is_alive, close} of length '
                '<= depth, t = %.1f s, on a worker whose target shows one of the behaviours; product of class x behaviour x history' % T)
    ctx.assumptions = ['wall-clock bounds scaled by a load factor measured on a trivial process-worker round trip']
    # load calibration
    t0 = time.time()
    land.run_cases([{'script': [{'op': 'create', 'var': 'w', 'kind': 'P', 'target': 'quick_ret'}, {'op': 'call', 'var': 'w', 'method': 'wait', 'args': [10]}]}])
    unit = time.time() - t0
    load = max(1.0, unit / 1.2)
    ctx.extra['load_factor'] = round(load, 2)
    tmp = tempfile.mkdtemp(prefix='pwv_c04_')
    cs = scripts(ctx.quick, tmp)
    res = land.run_cases(cs, case_timeout=240, nproc=12)
    import shutil
    shutil.rmtree(tmp, ignore_errors=True)
    harness = 0
    for case, obs in zip(cs, res):
        ctx.count()
        ctx.distinct((case['kind'], case['behaviour']) + tuple(case['history']))
        v = judge(case, obs, load)
        if v and any(w.endswith('-slow') or (w.endswith('-not-bounded') and not (d or {}).get('hang')) for w, d in v):
            # a verdict which rests on a measured duration alone must repeat: the history is run once more on its own (a stall of
            # the checker's own driver process is not a property of the library)
            obs2 = land.run_cases([case], case_timeout=240)[0]
            v2 = judge(case, obs2, load)
            if not v2:
                ctx.extra['timing_verdicts_not_reproduced'] = ctx.extra.get('timing_verdicts_not_reproduced', 0) + 1
                v = []
            else:
                v = v2
        ctx.outcome('%s:%s:%s' % (case['kind'], case['behaviour'], v[0][0] if v else 'ok'))
        for what, detail in v:
            if what == 'harness':
                harness += 1
                ctx.extra.setdefault('harness_anomalies', []).append({'kind': case['kind'], 'behaviour': case['behaviour'], 'why': str(detail)[:160]})
                continue
            first = case['history'][0]
            sig = 'SEQ/%s/%s/%s' % (case['kind'], case['behaviour'], what)
            ctx.violation(sig, {k: v for k, v in case.items() if k != 'script'}, detail, 'bounded, truthful, idempotent', engine='SEQ')
    ctx.sample({'case': {k: v for k, v in cs[len(cs) // 2].items() if k != 'script'}, 'script': cs[len(cs) // 2]['script']})
    ctx.extra['histories'] = len(cs)
    if harness > max(5, len(cs) // 40):
        ctx.selftest_fail('%d harness anomalies' % harness)


def replay(ctx, rec):
    c = rec['case']
    tmp = tempfile.mkdtemp(prefix='pwv_c04_')
    for case in scripts(False, tmp):
        if case['kind'] == c['kind'] and case['behaviour'] == c['behaviour'] and case['history'] == c['history']:
            obs = land.run_cases([case], case_timeout=240)[0]
            for op, st in zip(case['script'], obs.get('steps', [])):
                print(op.get('h', op['op']), str(st)[:150])
            v = judge(case, obs, 1.0)
            print('verdict', v)
            ctx.count()
            for what, detail in v:
                ctx.violation(rec['signature'], c, detail, rec.get('expected'), engine='SEQ')
            return
