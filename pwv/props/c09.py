"""C09 - no worker outlives its pool; a pool stays usable across runs and restarts (SEQ on real workers + POOLX multi-run)."""
import itertools

from .. import land, poolx

LEVEL = 'exploration'
ENGINE = 'SEQ+POOLX'
TECHNIQUE = 'bounded exhaustive enumeration of pool life-cycle histories (add workers of mixed kinds, run, run again, poison run, run with a close() request refused in a callback, restart_workers, kill a worker, stuck worker, SIGSTOPped worker, failing registration, ending by block exit / exception exit / close / terminate) on real thread/process/remote workers against a reference model, plus explicit-state exploration of two consecutive Pool.run calls on one pool with scripted workers'
LEVEL_TEXT = ('every history of the bounded alphabet is executed on a real Pool with real workers; oracle: after the ending every process and remote worker is dead and its pid is gone, each run returns exactly the results of its own inputs (or PoolError only when no live worker is left), killed workers do not break later runs, restarted workers work again, a failing registration leaves no process behind; POOLX: all reachable states of run;run on one pool with deaths in the first run')
LEVEL_NOTE = 'histories are bounded (pool composition x <=2 middle operations x ending); a run submitted to a stuck worker is a user error and is not enumerated; thread workers cannot be killed by a pool, the statement exempts them'

POOLS_Q = [('P',), ('R',), ('T', 'P', 'R')]
POOLS_T = [('T',), ('P',), ('R',), ('P', 'R'), ('T', 'P', 'R'), ('P', 'P')]
MIDDLE = ['run_a', 'run_b', 'run_poison', 'restart', 'kill', 'stuck', 'stop', 'add_failing', 'add_P', 'run_closing']
ENDS = ['exit', 'exc-exit', 'close', 'terminate']
RUN_A = [1, 2, 3, 4]
RUN_B = [10, 20, 30]


def histories(quick):
    pools = POOLS_Q if quick else POOLS_T
    out = []
    for comp in pools:
        mids = [()] + [(m,) for m in MIDDLE] + [(a, b) for a in MIDDLE for b in MIDDLE if a not in ('stuck', 'stop')]
        if not quick:
            mids += [(a, b, c) for a in ('run_a', 'kill', 'run_poison', 'restart') for b in MIDDLE if b not in ('stuck', 'stop') for c in ('run_a', 'restart', 'kill', 'stuck', 'stop')]
        else:
            # a failed run must leave nothing behind for the next one (always part of the quick tier)
            mids += [('run_poison', 'restart', 'run_a'), ('run_poison', 'restart', 'run_b'), ('kill', 'restart', 'run_b'), ('run_a', 'run_poison', 'restart', 'run_b')]
            # ... also when the pool is made usable again by a new worker instead of a restart
            mids += [('run_poison', 'add_P', 'run_a'), ('run_poison', 'add_P', 'run_b')]
        # a restart which cannot stop a stuck worker (forced termination disabled for the restart only) must not abandon its child
        mids += [('stuck', 'restart_noforce'), ('run_a', 'stuck', 'restart_noforce')]
        for mid in mids:
            ends = ENDS if (len(mid) <= 1 or not quick) else ['exit', 'exc-exit']
            for end in ends:
                for force in ((None,) if quick or end in ('exit', 'exc-exit') else (None, True)):
                    out.append({'comp': comp, 'mid': mid, 'end': end, 'force': force})
    return out


def build(h):
    sc = [{'op': 'pool_create', 'var': 'p', 'close_timeout': 0.3}]
    exp = [('ret', 'created', 'pool-create')]
    alive = []          # model: liveness per worker slot
    kinds = []
    for k in h['comp']:
        sc.append({'op': 'pool_add', 'pool': 'p', 'kind': k})
        exp.append(('ret', 'added', 'add_worker-fails'))
        alive.append(True)
        kinds.append(k)
    stuck = False
    for m in h['mid']:
        if m in ('run_a', 'run_b', 'run_closing'):
            inputs = RUN_B if m == 'run_b' else RUN_A
            sc.append({'op': 'pool_run', 'pool': 'p', 'inputs': inputs, 'extra': 1})
            if m == 'run_closing':
                sc[-1]['close_in_callback'] = True      # a close() request made (and refused) in the middle of the run changes nothing
            if any(alive):
                exp.append(('ret', ['ret', sorted([[x] for x in inputs], key=repr)], 'run-results-wrong'))
            else:
                exp.append(('no-live-worker', None, 'run-with-no-live-worker'))
        elif m == 'run_poison':
            n = len(alive) + 2
            sc.append({'op': 'pool_run', 'pool': 'p', 'inputs': ['POISON'] * n})
            if any(alive):
                exp.append(('poolerror', None, 'poison-run-did-not-fail'))
            else:
                exp.append(('no-live-worker', None, 'run-with-no-live-worker'))
            alive = [False] * len(alive)
        elif m == 'restart':
            sc.append({'op': 'pool_restart', 'pool': 'p'})
            exp.append(('ret', None, 'restart_workers-fails'))
            alive = [True] * len(alive)
        elif m == 'restart_noforce':
            sc.append({'op': 'pool_restart', 'pool': 'p', 'kwargs': {'force': False}})
            if stuck:
                exp.append(('exc', 'RuntimeError', 'restart-of-a-worker-which-cannot-be-stopped-did-not-raise'))
            else:
                exp.append(('ret', None, 'restart_workers-fails'))
                alive = [True] * len(alive)
        elif m == 'kill':
            idx = next((i for i, k in enumerate(kinds) if k != 'T'), None)
            if idx is None:
                continue
            sc.append({'op': 'pool_kill', 'pool': 'p', 'i': idx})
            exp.append(('ret', True, 'kill'))
            alive[idx] = False
        elif m == 'stuck':
            idx = next((i for i, k in enumerate(kinds) if k != 'T' and alive[i]), None)
            if idx is None:
                continue
            sc.append({'op': 'pool_stuck', 'pool': 'p', 'i': idx})
            exp.append(('any', None, 'stuck'))
            sc.append({'op': 'sleep', 's': 0.1})
            exp.append(('any', None, 'sleep'))
            stuck = True
        elif m == 'stop':
            idx = next((i for i, k in enumerate(kinds) if k == 'P' and alive[i]), None)
            if idx is None:
                continue
            sc.append({'op': 'pool_stop', 'pool': 'p', 'i': idx})
            exp.append(('any', None, 'stop'))
            stuck = True
        elif m == 'add_failing':
            sc.append({'op': 'pool_add', 'pool': 'p', 'kind': 'P', 'fail': True})
            exp.append(('failed-add', None, 'failed-registration-leaks-a-process'))
        elif m == 'add_P':
            sc.append({'op': 'pool_add', 'pool': 'p', 'kind': 'P'})
            exp.append(('ret', 'added', 'add_worker-fails'))
            alive.append(True)
            kinds.append('P')
    end = {'op': 'pool_end', 'pool': 'p', 'how': h['end']}
    if h['force'] is not None:
        sc[0]['force'] = h['force']
    sc.append(end)
    exp.append(('ret', None, 'pool-end-fails'))
    sc.append({'op': 'sleep', 's': 0.15})
    exp.append(('any', None, 'sleep'))
    sc.append({'op': 'pool_state', 'pool': 'p'})
    exp.append(('all-dead', None, 'worker-outlives-its-pool'))
    return sc, exp


def judge(sc, exp, obs):
    if obs.get('driver_hang') or obs.get('driver_error'):
        return [('checker-process-killed-or-hung', obs.get('driver_hang') or obs.get('driver_error'))]
    for i, (op, e, st) in enumerate(zip(sc, exp, obs['steps'])):
        kind, val, what = e
        if st.get('harness_error'):
            return [('harness', st)]
        if st.get('hang'):
            return [('%s/hangs' % what, {'step': i, 'op': op['op']})]
        if kind == 'ret':
            if 'ret' not in st or st['ret'] != val:
                return [(what, {'step': i, 'got': st, 'expected': val})]
        elif kind == 'poolerror':
            r = st.get('ret')
            if not (isinstance(r, list) and r and r[0] == 'PoolError' and r[1] == []):
                return [(what, {'step': i, 'got': st})]
        elif kind == 'no-live-worker':
            r = st.get('ret')
            if not (isinstance(r, list) and ((r[0] == 'ret' and r[1] in (None, [])) or r[0] == 'PoolError')):
                return [(what, {'step': i, 'got': st})]
        elif kind == 'exc':
            if st.get('exc') != val:
                return [(what, {'step': i, 'got': st})]
        elif kind == 'failed-add':
            if 'exc' not in st:
                return [('failing-registration-did-not-raise', st)]
            if st.get('new_processes_left'):
                return [(what, st)]
        elif kind == 'all-dead':
            bad = [w for w in (st.get('ret') or []) if w[0] != 'T' and not (w[1] is False and w[2] is True and w[3] is True)]
            if bad:
                return [(what, {'workers': st.get('ret')})]
    if len(obs['steps']) < len(sc):
        return [('harness', 'script stopped early')]
    return []


def poolx_multirun(ctx):
    """Two consecutive runs on one pool (scripted workers): bookkeeping of the first run must not leak into the second."""
    # reuse the POOLX machinery: a box whose inputs are run in two halves is modelled by exploring run 1 with deaths and then
    # running run 2 without any environment choice left (deaths budget exhausted) on every terminal state of run 1
    import pyworkers.pool as P
    import types
    total = {'states': 0, 'transitions': 0, 'executions': 0}
    bad = {}
    for cfg in ([{'workers': 2, 'inputs': [1, 2, 3], 'extra': 1, 'deaths': 1, 'retry': True},
                 {'workers': 2, 'inputs': [1, 2, 3, 4], 'extra': 0, 'deaths': 1, 'retry': True},
                 {'workers': 3, 'inputs': [1, 2, 3], 'extra': 1, 'deaths': 2, 'retry': True},
                 {'workers': 2, 'inputs': [1, 2, 3], 'extra': 1, 'deaths': 1, 'retry': False}] if True else []):
        def on_exec(box, out, choices, cfg=cfg):
            pool = getattr(out, 'pool', None)
            if pool is None or out.kind not in ('return', 'PoolError'):
                return
            # second run on the same pool, no further deaths
            box.deaths_left = 0
            live = [w for w in box.workers if w.alive]
            saved = (P.mp, P.time, P.Pipe)

            def wait(conns, timeout=None):
                box.ticks = 0
                conns = list(conns)
                for w in live:
                    while w.queue:
                        w.answer()
                ready = [c for c in conns if c.ready()]
                if not ready:
                    raise poolx.Deadlock('second run blocks')
                return ready
            P.mp = types.SimpleNamespace(connection=types.SimpleNamespace(wait=wait))
            P.time = types.SimpleNamespace(sleep=lambda s: box.tick(), time=lambda: 0.0)
            P.Pipe = poolx.FakePipe
            box.prefix = list(choices) + [0] * 50
            box.trace = []        # do not let the choice points of the second run leak into the exploration of the first
            enq_before = {w.idx: len(w.accepted) for w in box.workers}
            try:
                try:
                    r = pool.run(iter([7, 8, 9]), worker_extra_pending_inputs=cfg['extra'])
                    res = ('return', tuple(sorted(r)) if r is not None else None)
                except P.PoolError as e:
                    res = ('PoolError', tuple(sorted(e.partial_results or [])))
                except BaseException as e:  # noqa
                    res = ('error', type(e).__name__)
            finally:
                P.mp, P.time, P.Pipe = saved
            dead_used = [w.idx for w in box.workers if not w.alive and len(w.accepted) > enq_before[w.idx]]
            if live and not cfg['retry']:
                # without retrying an input handed to a worker whose death had not been noticed yet may be lost (C08)
                ok = res[0] == 'return' and res[1] is not None and len(set(res[1])) == len(res[1]) and set(res[1]) <= {70, 80, 90} and not dead_used
            elif live:
                ok = res == ('return', (70, 80, 90)) and not dead_used
            else:
                ok = res[0] in ('PoolError',) or res == ('return', None)
            if not ok:
                key = 'second-run-%s%s' % (res[0], '-dead-worker-got-work' if dead_used else '')
                bad.setdefault(key, {'cfg': cfg, 'choices': list(choices), 'observed': res, 'first_run': out.kind})
        st = poolx.explore(cfg, on_exec, perms=False)
        for k in total:
            total[k] += st[k]
    ctx.extra['poolx_multirun'] = total
    ctx.count(total['executions'])
    for key, v in bad.items():
        ctx.violation('POOLX/multi-run/%s' % key, v, v['observed'], 'the second run returns exactly its own results using live workers only', engine='POOLX')


def run(ctx):
    import logging
    logging.disable(logging.CRITICAL)
    ctx.rule = ('history = pool composition x <=2 (thorough 3) middle operations from {run a, run b, poison run, restart_workers, kill a worker, '
                'stuck worker, failing registration, add a worker} x ending {with-exit, exception exit, close, terminate}; distinct = history')
    hs = histories(ctx.quick)
    jobs, plan = [], []
    for h in hs:
        sc, exp = build(h)
        jobs.append({'script': sc})
        plan.append((h, sc, exp))
    res = land.run_cases(jobs, case_timeout=240, nproc=10)
    harness = 0
    for (h, sc, exp), obs in zip(plan, res):
        ctx.count()
        ctx.distinct(repr(h))
        v = judge(sc, exp, obs)
        ctx.outcome('%s' % (v[0][0] if v else 'ok'))
        for what, detail in v:
            if what == 'harness':
                harness += 1
                ctx.extra.setdefault('harness_anomalies', []).append({'h': h, 'why': str(detail)[:200]})
                continue
            ctx.violation('SEQ/pool/%s' % what, h, detail, 'no worker outlives its pool; runs are independent', engine='SEQ')
    ctx.sample({'history': plan[len(plan) // 3][0], 'script': plan[len(plan) // 3][1]})
    ctx.extra['histories'] = len(hs)
    poolx_multirun(ctx)
    if harness > 5:
        ctx.selftest_fail('%d harness anomalies' % harness)


def replay(ctx, rec):
    import logging
    logging.disable(logging.CRITICAL)
    h = rec['case']
    if 'comp' not in h:
        print('re-run the check; case:', h)
        return
    h = {'comp': tuple(h['comp']), 'mid': tuple(h['mid']), 'end': h['end'], 'force': h['force']}
    sc, exp = build(h)
    obs = land.run_cases([{'script': sc}], case_timeout=240)[0]
    for op, e, st in zip(sc, exp, obs.get('steps', [])):
        print(op['op'], e[2], str(st)[:160])
    v = judge(sc, exp, obs)
    print('verdict', v)
    ctx.count()
    for what, detail in v:
        if what != 'harness':
            ctx.violation(rec['signature'], rec['case'], detail, rec.get('expected'), engine='SEQ')
