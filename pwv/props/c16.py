"""C16 - user_state is synchronised child-to-parent at end of life, and only then (SEQ + LAND)."""
import os
import itertools

from .. import land

LEVEL = 'fault_enumeration'
ENGINE = 'SEQ+LAND'
TECHNIQUE = 'exhaustive product of (worker class, init_state, number of child-side assignments, ending) executed on real workers, graceful terminate landing at every line-level point of the child (state read from the child at the landing instant), parent-side delay points in the remote frontend (delayed state message, 1 MiB state read slowly), and restart / re-creation chains including restarts of workers that are already dead'
LEVEL_TEXT = ('every combination of the bounded input product is run on the real classes; for terminate endings one real run per landing point with the parent reading user_state while the child is held still (must be the initial value) and after death (must equal what the child held at the landing instant); chains of up to 3 restarts / re-creations must start from the last synchronised state')
LEVEL_NOTE = 'state values are JSON-like (None, scalars, lists, dicts); one asynchronous event per run; thread kinds share memory with the parent, so the while-alive clause is judged for process and remote kinds only (as the statement says)'

REPO = os.environ.get('PWV_REPO', '/repo')
INITS_Q = [None, 0, [1]]
INITS_T = [None, 0, 'x', [1], {'k': [1, 2]}, [[], {'a': None}]]


def natural_scripts(quick):
    out = []
    inits = INITS_Q if quick else INITS_T
    ms = (0, 1, 3) if quick else (0, 1, 2, 3, 10)
    for kind in ('T', 'P', 'R', 'PT', 'PP', 'PR'):
        pers = len(kind) == 2
        for init, m, ending in itertools.product(inits, ms, ('return', 'raise')):
            sc = [{'op': 'create', 'var': 'w', 'kind': kind, 'wcls': 'State', 'target': 't_ret_now', 'init_state': init,
                   'kwargs': {'m': m, 'ending': ending}}]
            if pers:
                sc += [{'op': 'call', 'var': 'w', 'method': 'enqueue', 'args': []},
                       {'op': 'call', 'var': 'w', 'method': 'enqueue', 'args': []}]
            sc += [{'op': 'call', 'var': 'w', 'method': 'wait', 'args': [10]},
                   {'op': 'get', 'var': 'w', 'attr': 'user_state', 'tag': 'state-first'},
                   {'op': 'get', 'var': 'w', 'attr': 'has_error', 'tag': 'has_error'},
                   {'op': 'get', 'var': 'w', 'attr': 'user_state', 'tag': 'state-after-accessor'},
                   {'op': 'set', 'var': 'w', 'attr': 'user_state', 'value': 'parent', 'tag': 'setter'},
                   {'op': 'get', 'var': 'w', 'attr': 'user_state', 'tag': 'state-after-setter'}]
            out.append({'script': sc, 'kind': kind, 'init': init, 'm': m, 'ending': ending, 'part': 'natural'})
    # the last assignment resets the state to None / a falsy value; an exception which cannot be pickled ends the work
    for kind in ('T', 'P', 'R', 'PT', 'PP', 'PR'):
        pers = len(kind) == 2
        for last, ending in (('none', 'return'), ('none', 'raise'), ('falsy', 'return'), (None, 'raise-unpicklable'), (None, 'return-unpicklable')):
            kwargs = {'m': 1, 'ending': ending}
            if last:
                kwargs['last'] = last
            sc = [{'op': 'create', 'var': 'w', 'kind': kind, 'wcls': 'State', 'target': 't_ret_now', 'init_state': [1], 'kwargs': kwargs}]
            if pers:
                sc += [{'op': 'call', 'var': 'w', 'method': 'enqueue', 'args': []}]
                if ending == 'return':
                    sc += [{'op': 'call', 'var': 'w', 'method': 'enqueue', 'args': []}]
            sc += [{'op': 'call', 'var': 'w', 'method': 'wait', 'args': [10]},
                   {'op': 'get', 'var': 'w', 'attr': 'user_state', 'tag': 'state-first'},
                   {'op': 'get', 'var': 'w', 'attr': 'has_error', 'tag': 'has_error'},
                   {'op': 'get', 'var': 'w', 'attr': 'user_state', 'tag': 'state-after-accessor'},
                   {'op': 'set', 'var': 'w', 'attr': 'user_state', 'value': 'parent', 'tag': 'setter'},
                   {'op': 'get', 'var': 'w', 'attr': 'user_state', 'tag': 'state-after-setter'}]
            exp = None if last == 'none' else (0 if last == 'falsy' else ['assigned', 1])
            out.append({'script': sc, 'kind': kind, 'init': [1], 'm': 1, 'ending': ending, 'part': 'natural', 'last': last, 'expect_state': [exp]})
    # the work is over and reported, the child process is still there (kept by a thread the work left behind): "while alive"
    for kind in ('P', 'PP'):
        sc = [{'op': 'create', 'var': 'w', 'kind': kind, 'wcls': 'State', 'target': 't_ret_now', 'init_state': [1], 'kwargs': {'m': 1, 'ending': 'linger'}}]
        if kind == 'PP':
            sc += [{'op': 'call', 'var': 'w', 'method': 'enqueue', 'args': []}, {'op': 'call', 'var': 'w', 'method': 'close'}]
        sc += [{'op': 'call', 'var': 'w', 'method': 'wait', 'args': [0.6], 'tag': 'short-wait'},
               {'op': 'call', 'var': 'w', 'method': 'is_alive', 'tag': 'alive'},
               {'op': 'get', 'var': 'w', 'attr': 'user_state', 'tag': 'state-while-alive'},
               {'op': 'call', 'var': 'w', 'method': 'terminate', 'kwargs': {'timeout': 0.5, 'force': True}, 'timeout': 20, 'tag': 'forced'},
               {'op': 'poll_dead', 'var': 'w', 'timeout': 8, 'tag': 'dead'},
               {'op': 'get', 'var': 'w', 'attr': 'user_state', 'tag': 'state-after-death'}]
        out.append({'script': sc, 'kind': kind, 'init': [1], 'm': 1, 'ending': 'linger', 'part': 'natural', 'linger': True})
    # a final state much bigger than the socket buffers, read slowly by the parent (the child process is long gone by then)
    for kind in ('R', 'PR'):
        for size in ((1 << 20,) if quick else (208 * 1024 + 1, 1 << 20, 4 << 20)):
            for ending in ('return', 'raise'):
                sc = [{'op': 'create', 'var': 'w', 'kind': kind, 'wcls': 'State', 'target': 't_ret_now', 'init_state': None,
                       'kwargs': {'m': 1, 'ending': ending, 'big': size}, 'slow_reader': {'chunk': 16384, 'sleep': 0.01}}]
                if kind == 'PR':
                    sc += [{'op': 'call', 'var': 'w', 'method': 'enqueue', 'args': []}]
                sc += [{'op': 'call', 'var': 'w', 'method': 'wait', 'args': [40], 'timeout': 60},
                       {'op': 'get', 'var': 'w', 'attr': 'user_state', 'tag': 'state-first', 'digest': True},
                       {'op': 'get', 'var': 'w', 'attr': 'has_error', 'tag': 'has_error'}]
                out.append({'script': sc, 'kind': kind, 'init': None, 'm': 1, 'ending': ending, 'part': 'natural', 'big': size})
    # a final state bigger than a pipe buffer held by a child that is ended by a graceful terminate(): the report of the child has to be
    # read while the parent waits for it to go
    for kind in ('P', 'PP', 'R', 'PR'):
        for size in ((1 << 20,) if quick else (65537, 300000, 1 << 20, 4 << 20)):
            sc = [{'op': 'create', 'var': 'w', 'kind': kind, 'wcls': 'State', 'target': 't_ret_now', 'init_state': None,
                   'kwargs': {'m': 1, 'ending': 'spin', 'big': size}}]
            if kind in ('PP', 'PR'):
                sc += [{'op': 'call', 'var': 'w', 'method': 'enqueue', 'args': []}]
            sc += [{'op': 'sleep', 's': 0.4},
                   {'op': 'call', 'var': 'w', 'method': 'terminate', 'args': [5], 'timeout': 30},
                   {'op': 'call', 'var': 'w', 'method': 'wait', 'args': [20], 'timeout': 40},
                   {'op': 'get', 'var': 'w', 'attr': 'user_state', 'tag': 'state-first', 'digest': True},
                   {'op': 'get', 'var': 'w', 'attr': 'has_error', 'tag': 'has_error'}]
            out.append({'script': sc, 'kind': kind, 'init': None, 'm': 1, 'ending': 'terminated', 'part': 'natural', 'big': size})
    return out


def chain_scripts(quick):
    out = []
    inits = [None, [1]] if quick else INITS_T
    for kind in ('T', 'P', 'R'):
        for init in inits:
            for length in (2, 3):
                sc = []
                for i in range(length):
                    c = {'op': 'create', 'var': 'w%d' % i, 'kind': kind, 'wcls': 'State', 'target': 't_ret_now', 'kwargs': {'m': i + 1}}
                    if i == 0:
                        c['init_state'] = init
                    else:
                        c['init_state_from'] = 'w%d' % (i - 1)
                    sc += [c, {'op': 'call', 'var': 'w%d' % i, 'method': 'wait', 'args': [10]},
                           {'op': 'get', 'var': 'w%d' % i, 'attr': 'result', 'tag': 'saw%d' % i},
                           {'op': 'get', 'var': 'w%d' % i, 'attr': 'user_state', 'tag': 'state%d' % i}]
                out.append({'script': sc, 'kind': kind, 'init': init, 'part': 'recreate-chain', 'length': length})
    for kind in ('PT', 'PP', 'PR'):
        for init in inits:
            for how in ('idle', 'busy'):
                for nrestart in ((1, 2) if quick else (1, 2, 3)):
                    sc = [{'op': 'create', 'var': 'w', 'kind': kind, 'wcls': 'State', 'target': 't_ret_now', 'init_state': init,
                           'kwargs': {'m': 1, 'ending': 'return' if how == 'idle' else 'spin'}}]
                    for r in range(nrestart + 1):
                        sc += [{'op': 'call', 'var': 'w', 'method': 'enqueue', 'args': []}]
                        if how == 'idle':
                            sc += [{'op': 'call', 'var': 'w', 'method': 'next_result', 'tag': 'saw%d' % r, 'timeout': 8}]
                        else:
                            sc += [{'op': 'sleep', 's': 0.25}]
                        if r < nrestart:
                            if how == 'idle':
                                sc += [{'op': 'call', 'var': 'w', 'method': 'restart', 'timeout': 20}]
                            else:
                                sc += [{'op': 'call', 'var': 'w', 'method': 'restart', 'kwargs': {'timeout': 0.2}, 'timeout': 20}]
                            sc += [{'op': 'get', 'var': 'w', 'attr': 'user_state', 'tag': 'state-after-restart%d' % r}]
                    sc += [{'op': 'call', 'var': 'w', 'method': 'terminate', 'args': [5]}]
                    out.append({'script': sc, 'kind': kind, 'init': init, 'part': 'restart-chain', 'how': how, 'restarts': nrestart})
            # restart of a worker which is already dead, with nothing read from it between its death and the restart
            for how in ('waited', 'crashed', 'terminated'):
                for nrestart in ((1, 2) if quick else (1, 2, 3)):
                    sc = [{'op': 'create', 'var': 'w', 'kind': kind, 'wcls': 'State', 'target': 't_ret_now', 'init_state': init, 'kwargs': {'m': 1}}]
                    for r in range(nrestart):
                        if how == 'waited':
                            sc += [{'op': 'call', 'var': 'w', 'method': 'enqueue', 'args': []},
                                   {'op': 'call', 'var': 'w', 'method': 'next_result', 'tag': 'saw%d' % r, 'timeout': 8},
                                   {'op': 'call', 'var': 'w', 'method': 'wait', 'args': [10], 'tag': 'ended%d' % r}]
                        elif how == 'crashed':
                            sc += [{'op': 'call', 'var': 'w', 'method': 'enqueue', 'args': [], 'kwargs': {'ending': 'raise'}},
                                   {'op': 'child_dead', 'var': 'w', 'kind': kind, 'within': 8, 'tag': 'ended%d' % r}]
                        else:
                            sc += [{'op': 'call', 'var': 'w', 'method': 'enqueue', 'args': [], 'kwargs': {'ending': 'spin'}},
                                   {'op': 'sleep', 's': 0.25},
                                   {'op': 'call', 'var': 'w', 'method': 'terminate', 'args': [5], 'tag': 'ended%d' % r}]
                        sc += [{'op': 'call', 'var': 'w', 'method': 'restart', 'timeout': 20},
                               {'op': 'get', 'var': 'w', 'attr': 'user_state', 'tag': 'state-after-restart%d' % r}]
                    sc += [{'op': 'call', 'var': 'w', 'method': 'enqueue', 'args': []},
                           {'op': 'call', 'var': 'w', 'method': 'next_result', 'tag': 'saw-last', 'timeout': 8},
                           {'op': 'call', 'var': 'w', 'method': 'terminate', 'args': [5]}]
                    out.append({'script': sc, 'kind': kind, 'init': init, 'part': 'dead-restart-chain', 'how': how, 'restarts': nrestart})
    return out


def landing_scenarios(quick):
    out = []
    for kind in ('T', 'P', 'R', 'PT', 'PP', 'PR'):
        for init in ([[1]] if quick else [None, [1], {'k': [1, 2]}]):
            s = {'kind': kind, 'worker_cls': 'State', 'target': 't_ret_now', 'init_state': init, 'targs': {'m': 2, 'ending': 'return'},
                 'read_state_while_paused': True}
            if len(kind) == 2:
                s.update(inputs=[], close=True, reach_timeout=2.5)
                s['enqueue_empty'] = 1
            out.append(s)
    return out


def slow_frontend_cases():
    out = []
    for kind in ('R', 'PR'):
        sc = {'kind': kind, 'worker_cls': 'State', 'target': 't_ret_now', 'init_state': [1], 'targs': {'m': 2, 'ending': 'return'},
              'events': [], 'observe': 'poll-wait', 'frontend_delay': {'comment_prefix': 'data: user state', 'seconds': 1.2}}
        if kind == 'PR':
            sc.update(inputs=[[]], close=True)
        out.append(sc)
    return out


def tagged(steps, script):
    d = {}
    for op, st in zip(script, steps):
        if op.get('tag'):
            d[op['tag']] = st
    return d


def judge_natural(case, obs):
    if obs.get('driver_hang') or obs.get('driver_error'):
        return [('harness', obs.get('driver_hang') or obs.get('driver_error'))]
    t = tagged(obs['steps'], case['script'])
    bad = []
    if any(s.get('hang') or s.get('harness_error') for s in obs['steps']):
        return [('harness', 'step hang/error %s' % [s for s in obs['steps'] if s.get('hang') or s.get('harness_error')][:1])]
    if case.get('linger'):
        if t['short-wait'].get('ret') is not False or t['alive'].get('ret') is not True:
            return [('harness', {'short-wait': t['short-wait'], 'alive': t['alive']})]       # the child did not linger
        if t['state-while-alive'].get('ret') != case['init']:
            return [('parent-sees-child-state-while-alive', {'got': t['state-while-alive'], 'initial': case['init']})]
        if t['dead'].get('ret') is not True:
            return [('harness', t['dead'])]
        if t['state-after-death'].get('ret') != ['assigned', 1]:
            return [('state-not-synchronised-after-death', t['state-after-death'])]
        return []
    if case.get('big'):
        got = t['state-first'].get('ret')
        ok = isinstance(got, dict) and got.get('len') == 2 and got.get('head') == 'big' and got.get('size') == case['big']
        return [] if ok else [('big-state-not-synchronised-' + ('after-terminate' if case['ending'] == 'terminated' else 'slow-reader'), {'got': str(t['state-first'])[:200], 'expected_size': case['big']})]
    exp = ['assigned', case['m']] if case['m'] > 0 else case['init']
    if 'expect_state' in case:
        exp = case['expect_state'][0]
    first = t['state-first']
    if first.get('ret', 'X') != exp:
        # is it just lazy (fixed by touching another accessor)?
        lazy = t['state-after-accessor'].get('ret', 'X') == exp
        bad.append(('state-not-synchronised-after-wait' + ('-until-result-is-read' if lazy else ''), {'got': first, 'expected': exp}))
    elif t['state-after-accessor'].get('ret', 'X') != exp:
        bad.append(('state-changes-after-accessor', t['state-after-accessor']))
    if t['setter'].get('exc') != 'RuntimeError':
        bad.append(('parent-assignment-not-rejected', t['setter']))
    elif t['state-after-setter'].get('ret', 'X') != t['state-after-accessor'].get('ret', 'Y'):
        bad.append(('rejected-assignment-changed-the-state', t['state-after-setter']))
    return bad


def judge_chain(case, obs):
    if obs.get('driver_hang') or obs.get('driver_error'):
        return [('harness', obs.get('driver_hang') or obs.get('driver_error'))]
    t = tagged(obs['steps'], case['script'])
    bad = []
    if any(s.get('hang') or s.get('harness_error') for s in obs['steps']):
        return [('step-hangs-or-fails', [(i, s) for i, s in enumerate(obs['steps']) if s.get('hang') or s.get('harness_error')][:1])]
    if case['part'] == 'recreate-chain':
        prev = case['init']
        for i in range(case['length']):
            saw = t['saw%d' % i].get('ret')
            if saw != ['saw', prev]:
                bad.append(('incarnation-%d-did-not-start-from-previous-state' % i, {'saw': saw, 'expected': prev}))
                break
            prev = ['assigned', i + 1]
            if t['state%d' % i].get('ret') != prev:
                bad.append(('state-not-synchronised', t['state%d' % i]))
                break
    elif case['part'] == 'dead-restart-chain':
        prev = case['init']
        for r in range(case['restarts']):
            if t['ended%d' % r].get('ret') is not True:
                return [('harness', t['ended%d' % r])]
            if case['how'] == 'waited' and t['saw%d' % r].get('ret') != ['saw', prev]:
                bad.append(('incarnation-%d-did-not-start-from-last-synchronised-state' % r, {'saw': t['saw%d' % r].get('ret'), 'expected': prev}))
                break
            prev = ['assigned', 1]
            st = t['state-after-restart%d' % r]
            if st.get('ret') != prev:
                bad.append(('state-lost-by-restart-of-dead-worker-%s' % case['how'], {'got': st, 'expected': prev}))
                break
        else:
            if t['saw-last'].get('ret') != ['saw', prev]:
                bad.append(('incarnation-after-dead-restart-did-not-start-from-last-synchronised-state', {'saw': t['saw-last'].get('ret'), 'expected': prev}))
    else:
        prev = case['init']
        for r in range(case['restarts'] + 1):
            if case['how'] == 'idle':
                saw = t['saw%d' % r].get('ret')
                if saw != ['saw', prev]:
                    bad.append(('incarnation-%d-did-not-start-from-last-synchronised-state' % r, {'saw': saw, 'expected': prev}))
                    break
            prev = ['assigned', 1]
            if r < case['restarts']:
                st = t['state-after-restart%d' % r]
                if st.get('ret') != prev:
                    bad.append(('state-lost-by-restart-%s' % case['how'], {'got': st, 'expected': prev}))
                    break
    return bad


def judge_landing(case, obs):
    if obs.get('driver_hang') or obs.get('driver_error'):
        return [('harness', obs.get('driver_hang') or obs.get('driver_error'))]
    if obs.get('ctor') != 'ok':
        return [('constructor-' + str(obs.get('ctor')), None)]
    if obs.get('not_reached'):
        return [('beyond-end', None)]
    bad = []
    kind = case['kind']
    landed = (obs.get('landed') or [{}])[0]
    if kind in ('P', 'PP', 'R', 'PR'):
        # once the child has handed over its final result and state (the tail of its run function) the parent may already
        # hold the final value although the child has not exited yet: that is the end of life the statement speaks about
        real_site = landed.get('site') or case.get('_site')
        ssig = land.site_sig(real_site, REPO) if real_site else ''
        tail = any(ssig.startswith(p) for p in ('remote.py:_run_backend:try#1.finally', 'remote.py:_run_backend:body', 'process.py:_run:try#1.finally'))
        # (the parent already holds the child's final result at that moment)
        tail = tail or obs.get('has_error_while_paused') in (True, False)
        final_ok = tail and obs.get('state_while_alive') == landed.get('user_state')
        if obs.get('alive_while_paused') is True and obs.get('state_while_alive', 'X') != case['init_state'] and not final_ok:
            bad.append(('parent-sees-child-state-while-alive', {'got': obs.get('state_while_alive'), 'initial': case['init_state']}))
    if obs.get('state_setter') != 'RAISES:RuntimeError':
        bad.append(('parent-assignment-not-rejected', obs.get('state_setter')))
    rounds = obs.get('rounds') or []
    if obs.get('death') is True and rounds:
        alive, he, res, err = rounds[-1]
        reported = he is False or (he is True and err is not None)
        if reported and 'user_state' in landed:
            exp = landed['user_state']
            # the child may still assign after the landing only if the landing did not interrupt it (request undeliverable)
            if landed.get('release') == 'undeliverable' or he is False:
                exp_ok = [exp, ['assigned', 2]]
            else:
                exp_ok = [exp]
            if obs.get('user_state') not in exp_ok:
                bad.append(('state-after-terminate-differs-from-child', {'parent': obs.get('user_state'), 'child_at_landing': exp}))
    return bad


def run(ctx):
    full = not ctx.quick
    ctx.rule = ('natural: (class, init_state, m assignments, ending) product; chains: re-creation and restart chains of length <= 3; landing: '
                'graceful terminate at every LINE event of the child along the base path; delay: parent frontend delayed before the '
                'user-state message; distinct = the tuple')
    nat = natural_scripts(ctx.quick)
    ch = chain_scripts(ctx.quick)
    res = land.run_cases(nat + ch, case_timeout=120)
    harness = 0

    def report(case, verdicts, sigprefix, obs):
        nonlocal harness
        for what, detail in verdicts:
            if what == 'harness':
                harness += 1
                ctx.extra.setdefault('harness_anomalies', []).append({'case': sigprefix, 'why': str(detail)[:200]})
                continue
            if what == 'beyond-end':
                continue
            ctx.violation('%s/%s' % (sigprefix, what), {k: v for k, v in case.items() if k != 'script'} if 'script' in case else case,
                          detail, 'user_state synchronised at end of life, and only then', engine='SEQ' if 'script' in case else 'LAND')
    for case, obs in zip(nat, res[:len(nat)]):
        ctx.count()
        ctx.distinct(('nat', case['kind'], repr(case['init']), case['m'], case['ending'], case.get('big'), case.get('last'), case.get('linger')))
        v = judge_natural(case, obs)
        ctx.outcome('natural:%s:%s' % (case['kind'], v[0][0] if v else 'ok'))
        report(case, v, 'SEQ/%s/natural-%s' % (case['kind'], case['ending']), obs)
    for case, obs in zip(ch, res[len(nat):]):
        ctx.count()
        ctx.distinct(('chain', case['kind'], repr(case['init']), case['part'], case.get('how'), case.get('restarts', case.get('length'))))
        v = judge_chain(case, obs)
        ctx.outcome('chain:%s:%s' % (case['kind'], v[0][0] if v else 'ok'))
        report(case, v, 'SEQ/%s/%s%s' % (case['kind'], case['part'], '-' + case['how'] if case.get('how') else ''), obs)
    ctx.sample({'part': 'natural', 'case': {k: v for k, v in nat[7].items() if k != 'script'}, 'script': nat[7]['script']})
    ctx.sample({'part': 'chain', 'case': {k: v for k, v in ch[-1].items() if k != 'script'}})
    # landings
    scs = landing_scenarios(ctx.quick)
    for s in scs:
        if s.pop('enqueue_empty', None):
            s['inputs'] = [()]      # one enqueue without arguments
    bases, runs = land.sweep(scs, ['terminate'], full=full)
    for obs in runs:
        case = obs['case']
        ev = case['events'][0]
        ctx.count()
        ctx.distinct(('land', case['kind'], repr(case['init_state']), ev['k']))
        v = judge_landing(case, obs)
        ctx.outcome('landing:%s:%s' % (case['kind'], v[0][0] if v else 'ok'))
        report({'kind': case['kind'], 'init_state': case['init_state'], 'events': case['events'], 'site': case.get('_site')}, v,
               'LAND/%s/terminate@%s' % (case['kind'], land.site_sig(((obs.get('landed') or [{}])[0].get('site')) or case['_site'], REPO)), obs)
    for b, s in list(zip(bases, scs))[:3]:
        ctx.sample({'part': 'landing', 'kind': s['kind'], 'landing_points_on_base_path': b.get('events_total')})
    # parent-side delay point
    slow = land.run_cases(slow_frontend_cases(), case_timeout=60)
    for obs in slow:
        case = obs['case']
        ctx.count()
        ctx.distinct(('slow', case['kind']))
        bad = []
        if obs.get('death') is True and obs.get('user_state') != ['assigned', 2]:
            bad.append(('dead-reported-before-state-arrived', {'user_state': obs.get('user_state'), 'rounds': (obs.get('rounds') or [None])[0]}))
        ctx.outcome('slow-frontend:%s:%s' % (case['kind'], bad[0][0] if bad else 'ok'))
        report({'kind': case['kind'], 'frontend_delay': case['frontend_delay']}, bad, 'LAND/%s/slow-user-state-message' % case['kind'], obs)
    if harness > 5:
        ctx.selftest_fail('%d harness anomalies' % harness)
    ctx.extra['natural_cases'] = len(nat)
    ctx.extra['chain_cases'] = len(ch)
    ctx.extra['landing_runs'] = len(runs)


def replay(ctx, rec):
    print('C16 replay: re-run the check; failing case:', rec['case'])
    run(ctx)
