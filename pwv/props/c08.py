"""C08 - Pool failure reports are sound: PoolError only when no worker is left (POOLX)."""
import logging

from . import _pool_common as pc

LEVEL = 'model_checking'
ENGINE = 'POOLX'
TECHNIQUE = 'explicit-state model checking of the real Pool.run closed with scripted workers (stateless replay + canonical-state dedup at connection.wait), explored traces replayed on real thread/process workers'
LEVEL_TEXT = ('all reachable states of the real Pool.run event loop for every box up to the stated bound (workers, inputs, extra pending, deaths, poison inputs, enqueue_fn variants, input source kinds) are enumerated; the environment is consulted only where the pool can observe it, so the enumeration is complete for the box; oracle: PoolError => every worker is dead; partial_results and the retry-off return value hold only genuine results, at most one per input; with retry off every missing input went down with a worker that died (ground-truth hand-out log kept by the explorer)')
LEVEL_NOTE = 'the scripted worker is a model of the three persistent worker classes; it is bound to the code by replaying explored traces on real PersistentThreadWorker/PersistentProcessWorker pools (traces_validated_against_impl); bounds: <=3 workers, <=6 inputs, <=2 extra pending, <=3 deaths'
PROP = 'C08'


def run(ctx):
    logging.disable(logging.CRITICAL)
    pc.run_property(ctx, PROP)


def replay(ctx, rec):
    logging.disable(logging.CRITICAL)
    pc.replay_property(ctx, PROP, rec)
