"""C05 - persistent workers process each enqueue exactly once, in order, with merged arguments (SEQ)."""
import copy
import itertools

from .. import land, seq

LEVEL = 'exploration'
ENGINE = 'SEQ'
TECHNIQUE = 'bounded exhaustive enumeration of operation histories (enqueue variants, next_result, non-blocking / timed / zero-timeout polls, close, wait, call, drain, worker dying on its own observed / unobserved / without waiting) over default-argument configurations and result sizes (400 kB results read slowly by the parent), executed on real persistent thread/process/remote workers and compared step by step with a list model'
LEVEL_TEXT = ('every history up to the full depth over the operation alphabet, then extended on new abstract states (queue length, delivered, closed, dead) up to the maximum depth, x default-argument configurations x the three persistent classes; oracle = reference list model with merge(defaults, enqueue) on pristine defaults; WorkerClosedError after close/death; result == number of enqueues == number of delivered results; the stream ends exactly once')
LEVEL_NOTE = 'argument values are small JSON-like values; a mutating target checks that defaults are pristine for every call; operations that would block for ever by specification are disabled by the model'

D0, D1, D2 = 'd0', ['d1'], {'d': 2}
CONFIGS = [
    {'name': 'none', 'args': None, 'kwargs': None},
    {'name': 'list1', 'args': [D0], 'kwargs': None},
    {'name': 'tuple1', 'args': [D0], 'kwargs': None, 'tuple': True},
    {'name': 'list2+kw', 'args': [D0, D1], 'kwargs': {'k': 0, 'm': D1}},
    {'name': 'tuple3+kw', 'args': [D0, D1, D2], 'kwargs': {'k': 0}, 'tuple': True},
    {'name': 'empty-list', 'args': [], 'kwargs': {'k': 0}},
]
ENQ = {
    'e0': ([], {}),
    'e1': (['a'], {}),
    'e3': (['a', ['b'], 'c', 'x'], {}),
    'ek': ([], {'k': 5}),
    'ez': (['a'], {'z': 1}),
}


def merge(cfg, e):
    args = copy.deepcopy(list(cfg['args'] or []))
    kw = copy.deepcopy(dict(cfg['kwargs'] or {}))
    args[0:len(e[0])] = copy.deepcopy(e[0])
    kw.update(copy.deepcopy(e[1]))
    return args, kw


def expected_value(cfg, e):
    args, kw = merge(cfg, e)
    return [list(args), sorted([k, v] for k, v in kw.items())] + (['bytes[400000]'] if cfg.get('pad') else [])


# model state: (n_accepted, n_delivered, closed, dead)  -- the accepted list itself is reconstructed from the history
def enabled(enq_names):
    def f(st):
        acc, dlv, closed, dead = st
        ops = list(enq_names)
        if dlv < acc or closed:
            ops.append('next')
        if not closed and not dead:
            ops.append('close')
        ops.append('wait')
        if not closed and not dead:
            ops.append('die')
            ops.append('dieq')
            ops.append('poisonq')
        if dlv == acc and not closed and not dead:
            ops.append('call')
            ops.append('pollempty')     # a non-blocking look at a live worker with nothing outstanding: "nothing yet", not "the end"
        if closed or dead:
            ops.append('drain')
        return ops
    return f


def step(st, op):
    acc, dlv, closed, dead = st
    if op in ENQ:
        if not closed and not dead:
            acc += 1
    elif op == 'next':
        if dlv < acc:
            dlv += 1
    elif op == 'close':
        closed = True
    elif op == 'wait':
        closed = True
        dead = True
    elif op == 'call':
        acc += 1
        dlv += 1
    elif op == 'drain':
        dlv = acc
        dead = True
    elif op == 'die':
        dlv = acc
        dead = True
    elif op in ('dieq', 'poisonq'):
        dead = True
    return (min(acc, 3), min(dlv, 3), closed, dead) if False else (acc, dlv, closed, dead)


def abstract(st):
    acc, dlv, closed, dead = st
    return (min(acc - dlv, 2), min(dlv, 2), closed, dead)


def build_script(kind, cfg, hist, target):
    c = {'op': 'create', 'var': 'w', 'kind': kind, 'target': target}
    if cfg.get('pad'):
        c['slow_reader'] = {'chunk': 16384, 'sleep': 0.004}
    if cfg['args'] is not None:
        c['args'] = cfg['args']
        if cfg.get('tuple'):
            c['args_tuple'] = True
    if cfg['kwargs'] is not None:
        c['kwargs'] = cfg['kwargs']
    sc = [c]
    for op in hist:
        if op in ENQ:
            sc.append({'op': 'call', 'var': 'w', 'method': 'enqueue', 'args': ENQ[op][0], 'kwargs': ENQ[op][1], 'h': op})
        elif op == 'next':
            sc.append({'op': 'call', 'var': 'w', 'method': 'next_result', 'timeout': 6, 'h': op})
        elif op == 'close':
            sc.append({'op': 'call', 'var': 'w', 'method': 'close', 'h': op})
        elif op == 'wait':
            sc.append({'op': 'call', 'var': 'w', 'method': 'wait', 'args': [10], 'h': op})
        elif op == 'pollempty':
            sc.append({'op': 'call', 'var': 'w', 'method': 'next_result', 'kwargs': {'block': False}, 'timeout': 6, 'h': 'pollempty'})
            sc.append({'op': 'call', 'var': 'w', 'method': 'next_result', 'kwargs': {'timeout': 0.05}, 'timeout': 6, 'h': 'pollempty'})
            sc.append({'op': 'call', 'var': 'w', 'method': 'next_result', 'kwargs': {'timeout': 0}, 'timeout': 6, 'h': 'pollempty'})
        elif op == 'call':
            sc.append({'op': 'call', 'var': 'w', 'method': 'call', 'args': ENQ['ez'][0], 'kwargs': ENQ['ez'][1], 'timeout': 6, 'h': op})
        elif op == 'drain':
            sc.append({'op': 'drain', 'var': 'w', 'h': op})
        elif op == 'die':
            # the worker dies on its own (the target raises); the parent only observes: no close(), no wait()
            sc.append({'op': 'call', 'var': 'w', 'method': 'enqueue', 'args': ['POISON'], 'h': 'poison'})
            sc.append({'op': 'drain', 'var': 'w', 'h': 'drain', 'timeout': 6})
            sc.append({'op': 'poll_dead', 'var': 'w', 'h': 'poll-dead'})
        elif op == 'poisonq':
            # the input that kills the target is queued and the parent carries on at once: what it enqueues from now on may be
            # accepted (and lost with the worker) or rejected, everything answered before must still arrive
            sc.append({'op': 'call', 'var': 'w', 'method': 'enqueue', 'args': ['POISON'], 'h': 'poison-nowait'})
        elif op == 'dieq':
            # ... and dies quietly: the parent makes no call at all between the death and its next operation (the death is
            # awaited by looking at the thread / process itself, not through the worker's interface)
            sc.append({'op': 'call', 'var': 'w', 'method': 'enqueue', 'args': ['POISON'], 'h': 'poison'})
            sc.append({'op': 'child_dead', 'var': 'w', 'kind': kind, 'within': 8, 'h': 'child-dead'})
            if kind == 'PR':
                # a remote parent learns about the death from the final messages: "after death" starts when its frontend thread
                # has seen them (observed on the thread object, not through the worker's interface)
                sc.append({'op': 'child_dead', 'var': 'w', 'kind': 'PT', 'within': 20, 'h': 'child-dead'})
    # epilogue: end the worker and look at the totals
    sc += [{'op': 'call', 'var': 'w', 'method': 'wait', 'args': [10], 'h': 'final-wait'},
           {'op': 'drain', 'var': 'w', 'h': 'final-drain'},
           {'op': 'get', 'var': 'w', 'attr': 'has_error', 'h': 'final-has_error'},
           {'op': 'get', 'var': 'w', 'attr': 'result', 'h': 'final-result'},
           {'op': 'call', 'var': 'w', 'method': 'enqueue', 'args': ['late'], 'h': 'enqueue-after-death'},
           {'op': 'drain', 'var': 'w', 'h': 'drain-again'}]
    return sc


def judge(cfg, hist, script, obs):
    """Walk the model along the history; return list of (what, detail)."""
    if obs.get('driver_hang') or obs.get('driver_error'):
        return [('harness', obs.get('driver_hang') or obs.get('driver_error'))]
    steps = obs['steps']
    if steps and 'ret' not in steps[0]:
        return [('constructor-fails', steps[0])]
    accepted = []
    dlv = 0
    closed = dead = False
    poisoned = dying = False
    for op, st in zip(script[1:], steps[1:]):
        h = op['h']
        if st.get('harness_error'):
            return [('harness', st)]
        if h in ENQ and dying:
            if 'ret' not in st and st.get('exc') != 'WorkerClosedError':
                return [('enqueue-fails', st)]
        elif h in ENQ or h == 'enqueue-after-death':
            if closed or dead:
                if st.get('exc') != 'WorkerClosedError':
                    return [('enqueue-after-%s-not-rejected' % ('death' if dead else 'close'), st)]
            else:
                if 'ret' not in st:
                    return [('enqueue-fails', st)]
                accepted.append(ENQ[h])
        elif h == 'poison-nowait':
            if 'ret' not in st:
                return [('enqueue-fails', st)]
            poisoned = dying = True
            dead = True
        elif h == 'poison':
            if 'ret' not in st:
                return [('enqueue-fails', st)]
            poisoned = True
        elif h == 'child-dead':
            if st.get('ret') is not True:
                return [('harness', st)]
            dead = True
        elif h == 'poll-dead':
            if st.get('ret') is not True:
                return [('worker-not-dead-after-its-target-raised', st)]
            dead = True
        elif h == 'next':
            if dlv < len(accepted):
                exp = expected_value(cfg, accepted[dlv])
                if st.get('hang'):
                    return [('next_result-blocks', {'outstanding': len(accepted) - dlv})]
                if st.get('ret') != exp:
                    return [('wrong-result-%d' % (dlv + 1), {'got': st, 'expected': exp})]
                dlv += 1
            else:
                if st.get('exc') != 'Empty':
                    return [('stream-does-not-end', st)]
                dead = True
        elif h == 'pollempty':
            if st.get('exc') != 'Empty':
                return [('poll-of-a-live-idle-worker-does-not-raise-Empty', st)]
        elif h == 'close':
            closed = True
        elif h in ('wait', 'final-wait'):
            if st.get('ret') is not True:
                return [('wait-returned-%s' % st.get('ret', st.get('exc', 'hang')), st)]
            closed = dead = True
            dying = False
        elif h == 'call':
            exp = expected_value(cfg, ENQ['ez'])
            if st.get('ret') != exp:
                return [('call-wrong-result', {'got': st, 'expected': exp})]
            accepted.append(ENQ['ez'])
            dlv += 1
        elif h in ('drain', 'final-drain', 'drain-again'):
            exp = [expected_value(cfg, e) for e in accepted[dlv:]]
            if st.get('end') != 'empty':
                return [('stream-does-not-end', st)]
            if st.get('ret') != exp:
                return [('drain-wrong-results', {'got': st.get('ret'), 'expected': exp})]
            dlv = len(accepted)
            dead = True
        elif h == 'final-has_error':
            if st.get('ret') is not poisoned:
                return [('worker-ended-with-error' if not poisoned else 'has_error-not-true-after-target-exception', st)]
        elif h == 'final-result':
            if poisoned:
                if st.get('ret') is not None:
                    return [('result-not-none-after-error', st)]
            elif st.get('ret') != len(accepted):
                return [('result-is-not-the-number-of-enqueues', {'result': st.get('ret'), 'enqueues': len(accepted), 'delivered': dlv})]
    return []


def run(ctx):
    ctx.rule = ('history = sequence over {5 enqueue variants, next_result, close, wait, call, drain, die (target raises, parent drains), dieq (target raises, parent makes no call), poisonq (the killing input is queued, the parent carries on at once), pollempty (non-blocking / timed-out read of a live idle worker)}; all histories up to the full depth, then '
                'extended while the abstract state (outstanding, delivered, closed, dead) is new; x default configurations x {PT, PP, PR} x '
                '{echo, mutating echo}; every history runs on a fresh real worker and ends with wait/drain/result/enqueue-after-death checks')
    quick = ctx.quick
    jobs = []
    plan = []
    for kind in ('PT', 'PP', 'PR'):
        if quick:
            d_full, d_max = (3, 5) if kind == 'PT' else (2, 4)
            cfgs = CONFIGS[:5] if kind == 'PT' else [CONFIGS[0], CONFIGS[3], CONFIGS[2]]
            enqs = ['e1', 'ek', 'e3'] if kind == 'PT' else ['e1', 'ek']
        else:
            d_full, d_max = (4, 8) if kind == 'PT' else (3, 6)
            cfgs = CONFIGS
            enqs = list(ENQ)
        hs = [h for h, st in seq_histories(enqs, d_full, d_max)]
        # reads beyond the end of the stream while the worker is still in its last moments (always part of the quick tier too)
        for extra in (('close', 'next', 'next'), ('e1', 'close', 'next', 'next', 'next'), ('close', 'next', 'next', 'wait', 'next'),
                      ('e1', 'poisonq', 'next', 'next', 'next')):
            if extra not in hs:
                hs.append(extra)
        for cfg in cfgs:
            for target in (('echo', 'echo_mut') if cfg['args'] else ('echo',)):
                for h in hs:
                    sc = build_script(kind, cfg, h, target)
                    jobs.append({'script': sc})
                    plan.append((kind, cfg, h, sc, target))
        if kind == 'PR':
            # results bigger than the socket buffers, read slowly by the parent: whatever the child has answered must arrive, also
            # when the child ends with input it never read (death of its own, close/wait racing with queued inputs)
            for base in (CONFIGS[0], CONFIGS[3]) if not quick else (CONFIGS[0],):
                cfg = dict(base, name=base['name'] + '+big-results-slow-reader', pad=True)
                for h in hs:
                    if len(h) > (3 if quick else 4) or not any(o in ENQ for o in h):
                        continue
                    sc = build_script(kind, cfg, h, 'echo_pad')
                    jobs.append({'script': sc})
                    plan.append((kind, cfg, h, sc, 'echo_pad'))
    res = land.run_cases(jobs, case_timeout=90)
    harness = 0
    for (kind, cfg, h, sc, target), obs in zip(plan, res):
        ctx.count()
        ctx.distinct((kind, cfg['name'], target) + tuple(h))
        v = judge(cfg, h, sc, obs)
        ctx.outcome('%s:%s' % (kind, v[0][0] if v else 'ok'))
        for what, detail in v:
            if what == 'harness':
                harness += 1
                continue
            dflt = 'tuple-defaults' if cfg.get('tuple') else ('list-defaults' if cfg['args'] is not None else 'no-defaults')
            sig = 'SEQ/%s/%s/%s/%s' % (kind, dflt, target, what)
            ctx.violation(sig, {'kind': kind, 'defaults': cfg, 'target': target, 'history': list(h)}, detail,
                          'one call per enqueue, in order, merged arguments on pristine defaults', engine='SEQ')
    ctx.sample({'kind': plan[len(plan) // 2][0], 'defaults': plan[len(plan) // 2][1], 'history': list(plan[len(plan) // 2][2])})
    ctx.sample({'kind': plan[-1][0], 'defaults': plan[-1][1], 'history': list(plan[-1][2])})
    if harness > 5:
        ctx.selftest_fail('%d harness anomalies' % harness)
    ctx.extra['histories_run'] = len(jobs)


def seq_histories(enqs, d_full, d_max):
    init = (0, 0, False, False)
    seen_abs = set()
    import collections
    frontier = collections.deque([((), init)])
    en = enabled(enqs)
    while frontier:
        hist, st = frontier.popleft()
        if hist:
            yield hist, st
        if len(hist) >= d_max:
            continue
        for op in en(st):
            nst = step(st, op)
            a = abstract(nst)
            if len(hist) + 1 <= d_full:
                seen_abs.add((a, op))
                frontier.append((hist + (op,), nst))
            elif (a, op) not in seen_abs:
                seen_abs.add((a, op))
                frontier.append((hist + (op,), nst))


def replay(ctx, rec):
    c = rec['case']
    sc = build_script(c['kind'], c['defaults'], tuple(c['history']), c['target'])
    obs = land.run_cases([{'script': sc}], case_timeout=90)[0]
    ctx.count()
    v = judge(c['defaults'], tuple(c['history']), sc, obs)
    for op, st in zip(sc, obs.get('steps', [])):
        print(op.get('h', op['op']), st)
    print('verdict', v)
    for what, detail in v:
        if what != 'harness':
            ctx.violation(rec['signature'], c, detail, rec.get('expected'), engine='SEQ')
