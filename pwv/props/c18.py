"""C18 - remote contexts are unique per id, supply their workers' work, and clean up (SEQ against a dict model)."""
import itertools

from .. import land, seq

LEVEL = 'exploration'
ENGINE = 'SEQ'
TECHNIQUE = 'bounded exhaustive enumeration of operation histories (create / duplicate / delete / delete unknown / worker in context / worker in unknown context / use worker / stale handle of a deleted context) over 2-3 context ids on a real server, and over a menu of id values (falsy ones, numbers, tuples) on servers of their own, compared step by step with a dictionary model of the server context table'
LEVEL_TEXT = ('every history up to the full depth, then extended on new abstract states of the model (registered ids x live workers), is executed against a real server process with real contexts and persistent remote workers; oracle: ValueError exactly on duplicates with the first context intact, workers compute the context target with the context defaults, delete ends its workers and frees the id, unknown ids never kill the server nor hang the client, a probe round trip after every history')
LEVEL_NOTE = 'context ids are made unique per history so that one server can serve many histories (raw id values get a fresh server per history); timing inside an operation is whatever the OS does'

VARIANTS = {'a': ('ctx_a', {'tag': 'A', 'exp': 3}), 'b': ('ctx_b', {'tag': 'B', 'exp': 5})}


def enabled(ids):
    def f(st):
        reg, workers = st
        ops = []
        for i in ids:
            ops += ['create:%d:a' % i, 'delete:%d' % i, 'worker:%d' % i]
            if i == ids[0] or len(ids) > 2:
                ops.append('create:%d:b' % i)
        ops += ['delete-unknown', 'worker-unknown']
        if workers:
            ops.append('use')
        if any(alive for (_, _, alive) in workers):
            ops.append('finish')
        return ops
    return f


def step(st, op):
    reg, workers = st
    reg = dict(reg)
    workers = list(workers)
    a = op.split(':')
    if a[0] == 'create':
        i = int(a[1])
        if i not in reg:
            reg[i] = a[2]
    elif a[0] == 'delete':
        i = int(a[1])
        if i in reg:
            del reg[i]
            workers = [(wi, v, False if wi == i else alive) for (wi, v, alive) in workers]
    elif a[0] == 'worker':
        i = int(a[1])
        if i in reg:
            workers.append((i, reg[i], True))
    elif a[0] == 'finish':
        for k in range(len(workers) - 1, -1, -1):
            if workers[k][2]:
                workers[k] = (workers[k][0], workers[k][1], False)
                break
    return (tuple(sorted(reg.items())), tuple(workers))


def abstract(st):
    reg, workers = st
    return (reg, tuple((i, alive) for (i, v, alive) in workers))     # the order of creation matters (cleanup loops walk the children in that order)


def histories(ids, d_full, d_max, maxw=3):
    import collections
    init = ((), ())
    seen = set()
    frontier = collections.deque([((), init)])
    en = enabled(ids)
    while frontier:
        hist, st = frontier.popleft()
        if hist:
            yield hist
        if len(hist) >= d_max:
            continue
        for op in en(st):
            nst = step(st, op)
            key = (abstract(st), op)          # every (abstract state, operation) pair is taken at least once
            if len(nst[1]) > maxw:
                continue
            if len(hist) + 1 <= d_full:
                seen.add(key)
                frontier.append((hist + (op,), nst))
            elif key not in seen:
                seen.add(key)
                frontier.append((hist + (op,), nst))


ID_MENU = ['0', "''", '()', 'False', '0.0', '1', '-1', "'a'", "('t', 1)", '2.5', 'frozenset()']
ID_HISTORIES = [
    ('create:1:a', 'worker:1', 'use', 'delete:1', 'create:1:b', 'worker:1', 'use'),
    ('create:1:a', 'create:1:b', 'worker:1', 'use'),
    ('create:1:a', 'create:2:b', 'worker:1', 'use', 'worker:2', 'use', 'delete:1', 'worker:1'),
    ('worker:1', 'delete:1', 'create:1:a', 'delete:1', 'delete:1', 'worker:1'),
]


def build(hist, n, idmap=None):
    """-> (script, expectations) ; expectations[i] describes what step i must show."""
    if idmap is None:
        uid = lambda i: 'h%d-ctx%s' % (n, i)  # noqa
        sc = []
        exp = []
    else:
        # raw id values (falsy ones, non-strings): the history gets a server of its own
        uid = lambda i: {'py': idmap[i]} if i in idmap else 'unknown-%s' % i  # noqa
        sc = [{'op': 'respawn_server'}]
        exp = [('any-return', None, 'harness')]
    reg = {}
    ctxvar = {}
    stale = {}      # id -> handles (variables) of contexts which have been deleted already
    workers = []    # (var, ctx id, variant, alive)
    nw = 0
    nc = 0
    for op in hist:
        a = op.split(':')
        if a[0] == 'create':
            i = int(a[1])
            tgt, kw = VARIANTS[a[2]]
            nc += 1
            var = 'c%d' % nc
            sc.append({'op': 'ctx_create', 'var': var, 'id': uid(i), 'target': tgt, 'kwargs': kw})
            if i in reg:
                exp.append(('exc', 'ValueError', 'duplicate-not-rejected'))
            else:
                exp.append(('ret', 'created', 'create-fails'))
                reg[i] = a[2]
                ctxvar[i] = var
        elif a[0] == 'delete':
            i = int(a[1])
            if i in reg:
                sc.append({'op': 'ctx_delete', 'var': ctxvar[i]})
                exp.append(('ret', True, 'delete-fails'))
                del reg[i]
                stale.setdefault(i, []).append(ctxvar[i])
                for w in workers:
                    if w[1] == i and w[3]:
                        w[3] = False
                        sc.append({'op': 'poll_dead', 'var': w[0], 'timeout': 14})
                        exp.append(('ret', True, 'worker-survives-context-delete'))
                        sc.append({'op': 'child_dead', 'var': w[0], 'kind': 'PR', 'within': 6})
                        exp.append(('ret', True, 'backend-of-a-deleted-context-still-running'))
                        sc.append({'op': 'get', 'var': w[0], 'attr': 'has_error'})
                        exp.append(('ret', True, 'worker-of-deleted-context-has-no-error'))
            else:
                sc.append({'op': 'ctx_delete_raw', 'id': uid(i)})
                exp.append(('any-return', None, 'delete-of-unregistered-id-fails'))
        elif a[0] == 'stale':
            # the handle of a context which has been deleted is asked to go once more (the `finally` of its first owner): nothing
            # happens, whatever has been registered under that id since
            i = int(a[1])
            for var in stale.get(i, []):
                sc.append({'op': 'ctx_delete', 'var': var})
                exp.append(('any-return', None, 'delete-through-a-stale-handle-fails'))
        elif a[0] == 'delete-unknown':
            sc.append({'op': 'ctx_delete_raw', 'id': uid('X')})
            exp.append(('any-return', None, 'delete-of-unknown-id-fails'))
        elif a[0] in ('worker', 'worker-unknown'):
            i = int(a[1]) if a[0] == 'worker' else None
            nw += 1
            var = 'w%d' % nw
            known = i is not None and i in reg
            sc.append({'op': 'create', 'var': var, 'kind': 'PR', 'target': None, 'ctor': {'context': uid(i if i is not None else 'U')}, 'timeout': 12})
            if known:
                exp.append(('ret', 'created', 'worker-in-context-fails'))
                workers.append([var, i, reg[i], True])
                tgt, kw = VARIANTS[reg[i]]
                sc.append({'op': 'call', 'var': var, 'method': 'call', 'args': [nw], 'timeout': 10})
                exp.append(('ret', [reg[i], kw['tag'], nw, kw['exp']], 'worker-does-not-run-the-context-target-with-its-defaults'))
            else:
                exp.append(('raises', None, 'worker-in-unknown-context'))
        elif a[0] == 'busy':
            # every live worker gets a long call which cannot be interrupted gracefully
            for w in workers:
                if w[3]:
                    sc.append({'op': 'call', 'var': w[0], 'method': 'enqueue', 'args': ['SLEEP']})
                    exp.append(('any-return', None, 'enqueue-fails'))
            sc.append({'op': 'sleep', 's': 0.3})
            exp.append(('any-return', None, 'harness'))
        elif a[0] == 'finish':
            live = [w for w in workers if w[3]]
            w = live[-1]
            w[3] = False
            sc.append({'op': 'call', 'var': w[0], 'method': 'wait', 'args': [10]})
            exp.append(('ret', True, 'worker-wait-fails'))
        elif a[0] == 'use':
            live = [w for w in workers if w[3]]
            if live:
                w = live[-1]
                tgt, kw = VARIANTS[w[2]]
                sc.append({'op': 'call', 'var': w[0], 'method': 'call', 'args': [99], 'timeout': 10})
                exp.append(('ret', [w[2], kw['tag'], 99, kw['exp']], 'worker-does-not-run-the-context-target-with-its-defaults'))
                # a call overriding a default of the context, then one which does not: the defaults are the context's again
                sc.append({'op': 'call', 'var': w[0], 'method': 'call', 'args': [98], 'kwargs': {'exp': 77}, 'timeout': 10})
                exp.append(('ret', [w[2], kw['tag'], 98, 77], 'per-call-override-of-a-context-default-ignored'))
                sc.append({'op': 'call', 'var': w[0], 'method': 'call', 'args': [97], 'timeout': 10})
                exp.append(('ret', [w[2], kw['tag'], 97, kw['exp']], 'context-defaults-not-pristine-after-an-overriding-call'))
            else:
                dead = workers[-1]
                sc.append({'op': 'call', 'var': dead[0], 'method': 'enqueue', 'args': [1]})
                exp.append(('exc', 'WorkerClosedError', 'enqueue-to-worker-of-deleted-context-accepted'))
    # epilogue: the first context of every still registered id is intact; the server is healthy
    for i, v in sorted(reg.items()):
        nw += 1
        var = 'w%d' % nw
        tgt, kw = VARIANTS[v]
        sc.append({'op': 'create', 'var': var, 'kind': 'PR', 'target': None, 'ctor': {'context': uid(i)}, 'timeout': 12})
        exp.append(('ret', 'created', 'registered-context-lost'))
        sc.append({'op': 'call', 'var': var, 'method': 'call', 'args': [5], 'timeout': 10})
        exp.append(('ret', [v, kw['tag'], 5, kw['exp']], 'first-context-not-intact'))
        sc.append({'op': 'call', 'var': var, 'method': 'wait', 'args': [10]})
        exp.append(('ret', True, 'worker-wait-fails'))
    sc.append({'op': 'server_alive'})
    exp.append(('ret', True, 'server-died'))
    sc.append({'op': 'probe', 'x': 7})
    exp.append(('ret', [True, 49], 'server-does-not-serve-new-clients'))
    return sc, exp


def judge(sc, exp, obs):
    if obs.get('driver_hang') or obs.get('driver_error'):
        return [('harness', obs.get('driver_hang') or obs.get('driver_error'))]
    for i, (op, e, st) in enumerate(zip(sc, exp, obs['steps'])):
        kind, val, what = e
        if st.get('harness_error'):
            return [('harness', st)]
        if st.get('hang'):
            return [('%s/hangs' % what, {'step': i, 'op': op['op']})]
        if kind == 'ret':
            if st.get('ret') != val:
                return [(what, {'step': i, 'got': st, 'expected': val})]
        elif kind == 'exc':
            if st.get('exc') != val:
                return [(what, {'step': i, 'got': st, 'expected': 'raises ' + val})]
        elif kind == 'raises':
            if 'exc' not in st:
                return [(what + '/constructor-returns', {'step': i, 'got': st})]
        elif kind == 'any-return':
            if 'ret' not in st:
                return [(what, {'step': i, 'got': st})]
    if len(obs['steps']) < len(sc):
        return [('harness', 'script stopped early')]
    return []


def run(ctx):
    ids = (1, 2)
    d_full, d_max, maxw = (2, 7, 2) if ctx.quick else (3, 8, 3)
    ctx.rule = ('history over {create i:a, create i:b, delete i, worker i, delete unknown, worker in unknown context, use last worker} for ids %s; '
                'all histories up to depth %d, then extended on new (model state, operation) pairs up to depth %d; every history ends with a probe of '
                'every registered context and of the server' % (list(ids), d_full, d_max))
    hs = list(histories(ids, d_full, d_max, maxw))
    # deleting a context whose workers are busy in calls which cannot be interrupted (always part of the quick tier too)
    hs += [('create:1:a', 'worker:1', 'worker:1', 'busy', 'delete:1'), ('create:1:a', 'worker:1', 'busy', 'delete:1', 'create:1:b', 'worker:1', 'use')]
    # stale handles: a deleted context's handle used again, before and after its id has been registered anew
    hs += [('create:1:a', 'delete:1', 'create:1:b', 'worker:1', 'use', 'stale:1', 'use', 'worker:1', 'use', 'create:1:a'),
           ('create:1:a', 'worker:1', 'delete:1', 'stale:1', 'create:1:a', 'stale:1', 'worker:1', 'use'),
           ('create:1:a', 'create:2:b', 'delete:1', 'worker:2', 'stale:1', 'use', 'create:1:b', 'delete:1', 'create:1:a', 'worker:1', 'stale:1', 'use')]
    jobs = []
    plan = []
    for n, h in enumerate(hs):
        sc, exp = build(h, n)
        jobs.append({'script': sc})
        plan.append((h, sc, exp))
    # the values an id can take: falsy ones, numbers, tuples (each history on a server of its own)
    idh = ID_HISTORIES if ctx.quick else ID_HISTORIES + [h for h in hs if len(h) <= 2]
    for v in ID_MENU:
        for h in idh:
            sc, exp = build(h, 0, idmap={1: v, 2: "'other'"})
            jobs.append({'script': sc})
            plan.append((('id=' + v,) + tuple(h), sc, exp))
    ctx.extra['id_value_histories'] = len(ID_MENU) * len(idh)
    res = land.run_cases(jobs, case_timeout=240)
    harness = 0
    for (h, sc, exp), obs in zip(plan, res):
        ctx.count()
        ctx.distinct(h)
        v = judge(sc, exp, obs)
        ctx.outcome(v[0][0] if v else 'ok')
        for what, detail in v:
            if what == 'harness':
                harness += 1
                ctx.extra.setdefault('harness_anomalies', []).append(str(detail)[:200])
                continue
            ctx.violation('SEQ/contexts/%s%s' % (what, '/raw-id' if h and str(h[0]).startswith('id=') else ''), {'history': list(h)}, detail, 'dictionary model of the context table', engine='SEQ')
    ctx.sample({'history': list(plan[len(plan) // 2][0]), 'script': plan[len(plan) // 2][1]})
    ctx.extra['histories'] = len(hs)
    if harness > 5:
        ctx.selftest_fail('%d harness anomalies' % harness)


def replay(ctx, rec):
    h = tuple(rec['case']['history'])
    if h and h[0].startswith('id='):
        sc, exp = build(h[1:], 0, idmap={1: h[0][3:], 2: "'other'"})
    else:
        sc, exp = build(h, 0)
    obs = land.run_cases([{'script': sc}], case_timeout=240)[0]
    for op, e, st in zip(sc, exp, obs.get('steps', [])):
        print(op['op'], e[2], str(st)[:150])
    v = judge(sc, exp, obs)
    print('verdict', v)
    ctx.count()
    for what, detail in v:
        if what != 'harness':
            ctx.violation(rec['signature'], rec['case'], detail, rec.get('expected'), engine='SEQ')
