"""C12 - stopping the server reaps its children and every parent finds out (SEQ configurations + LAND)."""
import os
import itertools

from .. import land
from .c20 import S_ARM

LEVEL = 'fault_enumeration'
ENGINE = 'SEQ+LAND'
TECHNIQUE = 'exhaustive enumeration of server populations (multisets of children in the listed states x one-shot/persistent x in/out of a context) x the two ways of stopping the server, plus the stop request landing at every line-level point of the server main thread while it starts a worker next to a running one (shutdown racing start-up)'
LEVEL_TEXT = ('every multiset of 0-3 (thorough 0-4) children over {cooperative, swallowing exceptions, idle persistent, finished, inside a context} is built on a fresh real server which is then stopped by terminate() or SIGTERM; oracle within 10 s: no process of that server is left (found through their environment tag, re-parented orphans included), every parent-side worker wait(10) returns True without blocking longer, a finished worker keeps its outcome, every other worker has has_error True, result None and error WorkerTerminatedError or None (WorkerTerminatedError required for a cooperative one-shot child stopped by terminate()); LAND: one run per landing point of the stop in the server main thread during a worker start-up')
LEVEL_NOTE = 'populations are multisets, not sequences (creation order is fixed); timing inside a population is whatever the OS does; bound 10 s'

CHILDREN = ('coop', 'stubborn', 'idle', 'finished', 'ctx')
WTE = {'exc': 'WorkerTerminatedError', 'args': ['terminate called']}


def population_script(pop, how, n):
    sc = [{'op': 'respawn_server', 'tag': 'server'}]
    nctx = 0
    for i, c in enumerate(pop):
        var = 'w%d' % i
        if c == 'coop':
            sc.append({'op': 'create', 'var': var, 'kind': 'R', 'target': 'cooperative', 'tag': 'create%d' % i})
        elif c == 'stubborn':
            sc.append({'op': 'create', 'var': var, 'kind': 'R', 'target': 'stubborn', 'tag': 'create%d' % i})
        elif c == 'idle':
            sc.append({'op': 'create', 'var': var, 'kind': 'PR', 'target': 'slow_echo', 'tag': 'create%d' % i})
        elif c == 'finished':
            sc.append({'op': 'create', 'var': var, 'kind': 'R', 'target': 'quick_ret', 'tag': 'create%d' % i})
            sc.append({'op': 'call', 'var': var, 'method': 'wait', 'args': [10]})
        elif c == 'ctx':
            nctx += 1
            cid = 'c12-%d-%d' % (n, nctx)
            sc.append({'op': 'ctx_create', 'var': 'ctx%d' % nctx, 'id': cid, 'target': 'slow_echo', 'kwargs': {'delay': 0.05}})
            sc.append({'op': 'create', 'var': var, 'kind': 'PR', 'target': None, 'ctor': {'context': cid}, 'tag': 'create%d' % i})
            sc.append({'op': 'call', 'var': var, 'method': 'call', 'args': ['x'], 'timeout': 8})
    sc.append({'op': 'sleep', 's': 0.15})
    sc.append({'op': 'server_stop', 'how': how, 'tag': 'stop'})
    for i, c in enumerate(pop):
        var = 'w%d' % i
        # first only look (wait() would itself close an idle persistent worker gracefully), then wait() must agree at once
        sc += [{'op': 'poll_dead', 'var': var, 'timeout': 10, 'tag': 'dead%d' % i},
               {'op': 'poll_wait', 'var': var, 'within': 10, 'tag': 'wait%d' % i, 'stop_on_hang': False},
               {'op': 'get', 'var': var, 'attr': 'has_error', 'tag': 'he%d' % i},
               {'op': 'get', 'var': var, 'attr': 'result', 'tag': 'res%d' % i},
               {'op': 'get', 'var': var, 'attr': 'error', 'tag': 'err%d' % i}]
    sc.append({'op': 'tagged_wait_empty', 'within': 10, 'tag': 'left'})
    return sc


def judge_population(pop, how, sc, obs):
    if obs.get('driver_hang') or obs.get('driver_error'):
        return [('checker-process-killed-or-hung', obs.get('driver_hang') or obs.get('driver_error'))]
    t = {}
    for op, st in zip(sc, obs['steps']):
        if op.get('tag'):
            t[op['tag']] = st
        if st.get('harness_error'):
            return [('harness', st)]
    for i in range(len(pop)):
        if t.get('create%d' % i, {}).get('ret') != 'created':
            return [('harness', {'create': t.get('create%d' % i)})]
    bad = []
    stop = t.get('stop', {})
    if stop.get('hang'):
        return [('server-terminate-hangs', stop)]
    if not stop.get('server_gone'):
        bad.append(('server-process-still-there', stop))
    for i, c in enumerate(pop):
        dd = t.get('dead%d' % i, {})
        if dd.get('ret') is not True:
            bad.append(('parent-does-not-find-out/%s' % c, dd))
            continue
        w = t.get('wait%d' % i, {})
        if w.get('hang') or w.get('s', 0) > 16:
            bad.append(('parent-blocks-in-wait/%s' % c, w))
            continue
        if w.get('ret') is not True:
            bad.append(('parent-not-dead/%s' % c, w))
            continue
        out = (t['he%d' % i].get('ret'), t['res%d' % i].get('ret'), t['err%d' % i].get('ret'))
        if c == 'finished':
            if out != (False, 5, None):
                bad.append(('finished-worker-lost-its-outcome', out))
        else:
            ok = out[0] is True and out[1] is None and out[2] in (WTE, None)
            if ok and c == 'coop' and how == 'terminate' and out[2] != WTE:
                bad.append(('cooperative-child-did-not-report-WorkerTerminatedError', out))
            elif not ok:
                bad.append(('wrong-outcome/%s' % c, out))
    left = t.get('left', {}).get('ret')
    if left:
        bad.append(('processes-left-behind', left))
    return bad


def landing_script(k):
    return [{'op': 'land_spec', 'arm': dict(S_ARM, hit=2), 'events': [{'k': k, 'action': 'terminate', 'cap': 8}]},
            {'op': 'respawn_server', 'tag': 'server'},
            {'op': 'create', 'var': 'wc', 'kind': 'R', 'target': 'cooperative', 'tag': 'bystander'},      # first accept: a running child
            {'op': 'create_async', 'var': 'w', 'kind': 'R', 'target': 'cooperative', 'timeout': 25},        # second accept: armed
            {'op': 'wait_reached', 'tag': 'reached', 'timeout': 8},
            {'op': 'server_stop', 'how': 'terminate', 'tag': 'stop'},
            {'op': 'join_create', 'var': 'w', 'timeout': 20, 'tag': 'ctor', 'stop_on_hang': False},
            {'op': 'land_off'},
            {'op': 'poll_dead', 'var': 'wc', 'timeout': 10, 'tag': 'by-dead'},
            {'op': 'get', 'var': 'wc', 'attr': 'error', 'tag': 'by-error'},
            {'op': 'tagged_wait_empty', 'within': 10, 'tag': 'left'}]


def sigterm_landing_script(k):
    """SIGTERM reaching the server when its main thread is at point k of serving the second client (a first child is running)."""
    return [{'op': 'land_spec', 'arm': dict(S_ARM, hit=2), 'events': [{'k': k, 'action': 'sigterm'}]},
            {'op': 'respawn_server', 'tag': 'server'},
            {'op': 'create', 'var': 'wc', 'kind': 'R', 'target': 'cooperative', 'tag': 'bystander'},
            {'op': 'create_async', 'var': 'w', 'kind': 'R', 'target': 'cooperative', 'timeout': 25},
            {'op': 'join_create', 'var': 'w', 'timeout': 20, 'tag': 'ctor', 'stop_on_hang': False},
            {'op': 'land_off'},
            {'op': 'poll_dead', 'var': 'wc', 'timeout': 10, 'tag': 'by-dead'},
            {'op': 'tagged_wait_empty', 'within': 10, 'tag': 'left'}]


def run(ctx):
    ctx.rule = ('population = multiset of children states on a fresh server x {terminate(), SIGTERM}; landing = the stop request landing at LINE '
                'event k of the server main thread between accept() returning and the next accept(); distinct = (population, how) or k')
    maxn = 3 if ctx.quick else 4
    pops = []
    for n in range(0, maxn + 1):
        for pop in itertools.combinations_with_replacement(CHILDREN, n):
            pops.append(pop)
    if ctx.quick:
        pops.append(('coop', 'stubborn', 'idle', 'finished', 'ctx'))
    jobs, plan = [], []
    for n, pop in enumerate(pops):
        for how in ('terminate', 'sigterm'):
            sc = population_script(pop, how, n)
            jobs.append({'script': sc})
            plan.append(('pop', pop, how, sc))
    # learn the server's start-up path
    from .c20 import create_op
    probe = land.run_cases([{'script': [{'op': 'land_spec', 'arm': dict(S_ARM, hit=2)}, {'op': 'respawn_server'}, dict(create_op('R'), var='w0'), create_op('R'),
                                        {'op': 'call', 'var': 'w', 'method': 'wait', 'args': [10]}, {'op': 'land_report'}, {'op': 'land_off'},
                                        {'op': 'server_stop', 'how': 'terminate'}]}], case_timeout=120)
    srv_sites = probe[0]['steps'][5]['ret']['sites'] if len(probe[0].get('steps', [])) > 5 else []
    if not srv_sites:
        ctx.selftest_fail('no landing points recorded in the server (tracer not armed)')
    ks = list(range(1, len(srv_sites) + 1))
    if ctx.quick:
        ks = sorted(set(land.select_points([s[:3] for s in srv_sites], False)) | set(range(1, len(srv_sites) + 1, 5)))
    for k in ks:
        sc = landing_script(k)
        jobs.append({'script': sc})
        plan.append(('land', k, srv_sites[k - 1], sc))
    for k in ks:
        sc = sigterm_landing_script(k)
        jobs.append({'script': sc})
        plan.append(('land-sigterm', k, srv_sites[k - 1], sc))
    ctx.extra['server_landing_points'] = len(srv_sites)
    # the stop arriving while the *parent* is at each line of its side of the start-up (it is held there, the server goes away)
    from . import c20
    ok_sites, n_ok, _ = c20.parent_paths()
    if not ok_sites:
        ctx.selftest_fail('no points recorded in the parent frontend thread')
    for how in ('sigterm', 'terminate'):
        for k in c20.thin_points(ok_sites, n_ok, ctx.quick):
            sc = c20.server_stopped_while_parent_held('R', k, how=how)
            jobs.append({'script': sc})
            plan.append(('parent-held', k, ok_sites[k - 1], sc, how))
    ctx.extra['parent_handshake_points'] = n_ok
    res = land.run_cases(jobs, case_timeout=180, nproc=10)
    harness = 0
    for p, job, obs in zip(plan, jobs, res):
        ctx.count()
        if p[0] == 'pop':
            _, pop, how, sc = p
            ctx.distinct(('pop', pop, how))
            v = judge_population(pop, how, sc, obs)
            ctx.outcome('population:%s:%s' % (how, v[0][0] if v else 'ok'))
            for what, detail in v:
                if what == 'harness':
                    harness += 1
                    ctx.extra.setdefault('harness_anomalies', []).append({'pop': pop, 'why': str(detail)[:200]})
                    continue
                ctx.violation('SEQ/stop-%s/%s' % (how, what), {'population': list(pop), 'how': how}, detail,
                              'children reaped, parents find out without blocking', engine='SEQ')
        elif p[0] == 'parent-held':
            _, k, site, sc, how = p
            ctx.distinct(('parent-held', k, how))
            if obs.get('driver_hang') or obs.get('driver_error'):
                harness += 1
                continue
            t = {}
            for op, st in zip(sc, obs['steps']):
                if op.get('tag'):
                    t[op['tag']] = st
            if t.get('reached', {}).get('ret') is not True:
                ctx.outcome('parent-held:not-reached')
                continue
            bad = None
            if t.get('ctor', {}).get('hang'):
                bad = ('parent-blocks-in-constructor', t.get('ctor'))
            ctx.outcome('parent-held:%s:%s' % (how, bad[0] if bad else ('raises' if 'exc' in t.get('ctor', {}) else 'returns')))
            if bad:
                ctx.violation('LAND/stop-%s-while-parent@%s/%s' % (how, land.site_sig(site, os.environ.get('PWV_REPO', '/repo')), bad[0]),
                              {'k': k, 'site': site, 'how': how}, bad[1], 'the parent finds out without blocking', engine='LAND')
        elif p[0] == 'land-sigterm':
            _, k, site, sc = p
            ctx.distinct(('land-sigterm', k))
            if obs.get('driver_hang') or obs.get('driver_error'):
                # the process which creates the worker (the driver) is gone: the stopping server signalled its client
                ctx.outcome('landing-sigterm:client-process-killed')
                ctx.violation('LAND/stop-sigterm@%s/client-process-killed-or-hung' % land.site_sig(site, os.environ.get('PWV_REPO', '/repo')),
                              {'k': k, 'site': site, 'how': 'sigterm'}, str(obs.get('driver_hang') or obs.get('driver_error'))[:200],
                              'the server signals its own children only', engine='LAND')
                continue
            t = {}
            for op, st in zip(sc, obs['steps']):
                if op.get('tag'):
                    t[op['tag']] = st
            bad = None
            if t.get('ctor', {}).get('hang'):
                bad = ('client-constructor-hangs', t.get('ctor'))
            elif t.get('left', {}).get('ret'):
                bad = ('processes-left-behind', t.get('left'))
            elif t.get('by-dead', {}).get('ret') is not True:
                bad = ('running-child-parent-does-not-find-out', t.get('by-dead'))
            ctx.outcome('landing-sigterm:%s' % (bad[0] if bad else 'ok'))
            if bad:
                ctx.violation('LAND/stop-sigterm@%s/%s' % (land.site_sig(site, os.environ.get('PWV_REPO', '/repo')), bad[0]),
                              {'k': k, 'site': site, 'how': 'sigterm'}, bad[1], 'children reaped, client constructor returns or raises', engine='LAND')
        else:
            _, k, site, sc = p
            ctx.distinct(('land', k))
            if obs.get('driver_hang') or obs.get('driver_error'):
                harness += 1
                continue
            t = {}
            for op, st in zip(sc, obs['steps']):
                if op.get('tag'):
                    t[op['tag']] = st
            bad = None
            if t.get('reached', {}).get('ret') is not True:
                ctx.outcome('landing:not-reached')
                ctx.extra['landing_not_reached'] = ctx.extra.get('landing_not_reached', 0) + 1
                continue
            if t.get('stop', {}).get('hang') or not t.get('stop', {}).get('server_gone'):
                bad = ('server-not-gone', t.get('stop'))
            elif t.get('ctor', {}).get('hang'):
                bad = ('client-constructor-hangs', t.get('ctor'))
            elif t.get('left', {}).get('ret'):
                bad = ('processes-left-behind', t.get('left'))
            elif t.get('by-dead', {}).get('ret') is not True:
                bad = ('running-child-parent-does-not-find-out', t.get('by-dead'))
            elif t.get('by-error', {}).get('ret') != WTE:
                bad = ('running-cooperative-child-did-not-report-WorkerTerminatedError', t.get('by-error'))
            ctx.outcome('landing:%s' % (bad[0] if bad else 'ok'))
            if bad:
                ctx.violation('LAND/stop-terminate@%s/%s' % (land.site_sig(site, os.environ.get('PWV_REPO', '/repo')), bad[0]),
                              {'k': k, 'site': site}, bad[1], 'children reaped, client constructor returns or raises', engine='LAND')
    ctx.sample({'population': list(plan[7][1]), 'how': plan[7][2], 'script': plan[7][3]})
    ctx.sample({'landing_k': ks[len(ks) // 2] if ks else None, 'site': srv_sites[ks[len(ks) // 2] - 1] if ks else None})
    ctx.extra['populations'] = len(pops)
    ctx.extra['landing_runs'] = len(ks)
    if harness > 5:
        ctx.selftest_fail('%d harness anomalies' % harness)


def replay(ctx, rec):
    c = rec['case']
    if 'population' in c:
        sc = population_script(tuple(c['population']), c['how'], 0)
        obs = land.run_cases([{'script': sc}], case_timeout=180)[0]
        for op, st in zip(sc, obs.get('steps', [])):
            print(op.get('tag', op['op']), str(st)[:160])
        v = judge_population(tuple(c['population']), c['how'], sc, obs)
        print('verdict', v)
        ctx.count()
        for what, detail in v:
            if what != 'harness':
                ctx.violation(rec['signature'], c, detail, rec.get('expected'), engine='SEQ')
    elif c.get('how') == 'sigterm' and 'k' in c:
        sc = sigterm_landing_script(c['k'])
        obs = land.run_cases([{'script': sc}], case_timeout=180)[0]
        ctx.count()
        print('driver:', obs.get('driver_hang') or obs.get('driver_error') or 'alive')
        for op, st in zip(sc, obs.get('steps', [])):
            print(op.get('tag', op['op']), str(st)[:160])
        if obs.get('driver_hang') or obs.get('driver_error'):
            ctx.violation(rec['signature'], c, str(obs.get('driver_hang') or obs.get('driver_error'))[:200], rec.get('expected'), engine='LAND')
    else:
        print('re-run the check; landing case', c)
