"""C07 - Pool.run yields exactly one result per input under every schedule and death (POOLX)."""
import logging

from . import _pool_common as pc

LEVEL = 'model_checking'
ENGINE = 'POOLX'
TECHNIQUE = 'explicit-state model checking of the real Pool.run closed with scripted workers (stateless replay + canonical-state dedup at connection.wait), explored traces replayed on real thread/process workers'
LEVEL_TEXT = ('all reachable states of the real Pool.run event loop for every box up to the stated bound (workers, inputs, extra pending, deaths, poison inputs, enqueue_fn variants, input source kinds) are enumerated; the environment is consulted only where the pool can observe it, so the enumeration is complete for the box; oracle: normal return => exactly one genuine result per input, no exception other than PoolError, no deadlock, no livelock')
LEVEL_NOTE = 'the scripted worker is a model of the three persistent worker classes; it is bound to the code by replaying explored traces on real PersistentThreadWorker/PersistentProcessWorker pools (traces_validated_against_impl); bounds: <=3 workers, <=6 inputs, <=2 extra pending, <=3 deaths'
PROP = 'C07'


def run(ctx):
    logging.disable(logging.CRITICAL)
    pc.run_property(ctx, PROP)


def replay(ctx, rec):
    logging.disable(logging.CRITICAL)
    pc.replay_property(ctx, PROP, rec)
