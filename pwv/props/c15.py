"""C15 - load-time state patches reach only the addressed objects, leave no residue (GRAPH + SEQ + SCHED)."""
import copy
import pickle
import threading

from .. import graph as G
from ..sched import Sched, Deadlock
from .c14 import families, tup, RISK

LEVEL = 'exploration'
ENGINE = 'GRAPH+SEQ+SCHED'
TECHNIQUE = 'bounded exhaustive enumeration of (object graph x patch dictionary) pairs against a reference patch semantics, every history of loads calls up to a depth bound compared with a fresh thread, and every interleaving of two concurrent patched loads up to a preemption bound; the caller-owned patch dictionaries are inputs (unchanged afterwards, reusable)'
LEVEL_TEXT = ('every graph of the C14 space whose unpatched load works x every patch dictionary derived from its top-level state (override, new key, dict patch for an opt-in child, non-dict replacement, two-level patch, dict patch for a non-opt-in entry) is loaded with the real remote_pickle and compared with the reference semantics computed on the unpatched load; every history of <= 3 (thorough 4) loads mixing good/patched/corrupt/raising loads must leave the next load equal to the same load on a fresh thread; two concurrent patched loads are explored under every schedule within the preemption bound')
LEVEL_NOTE = 'reference semantics is the statement read literally; graphs whose unpatched load already fails (C14 known finding: two opt-in siblings) are not judged here'

MISSING = object()


def is_optin(o):
    return type(o).__name__ in G.VARIANTS


def ref_apply(obj, patches):
    """Reference semantics of the statement, applied to an unpatched load."""
    if not is_optin(obj) or type(obj).__name__ == 'RTuple':
        return
    for k, v in patches.items():
        cur = obj.__dict__.get(k, MISSING)
        if isinstance(v, dict) and cur is not MISSING and is_optin(cur) and type(cur).__name__ != 'RTuple':
            ref_apply(cur, v)
        else:
            obj.__dict__[k] = v


def patch_menu(spec):
    """Patch dictionaries derived from the top-level node of the spec."""
    out = [{'zz': 1}]
    k = spec[0]
    attrs = spec[2] if k == 'R' else (spec[1] if k in ('P', 'D') else [])
    nodes = G.preorder(spec)

    def kind_of(c):
        if c[0] == 'ref':
            return nodes[c[1]][1][0]
        return c[0]
    for a, c in attrs:
        ck = kind_of(c)
        if ck == 'i':
            out.append({a: 99})
        elif ck == 'R' and (c[1] if c[0] == 'R' else nodes[c[1]][1][1]) == 'RTuple':
            out.append({a: 42})      # a child with a non-dict state can only be replaced (patching "entries of its state" is undefined)
        elif ck == 'R':
            out.append({a: {'pp': 5}})
            out.append({a: 42})
            out.append({a: {'pp': 5}, 'zz': 1})
            out.append({a: {}})
            if c[0] == 'R':
                for a2, c2 in c[2]:
                    if kind_of(c2) == 'R':
                        v2 = c2[1] if c2[0] == 'R' else nodes[c2[1]][1][1]
                        if v2 != 'RTuple':
                            out.append({a: {a2: {'qq': 7}}})
                        out.append({a: {a2: 13, 'pp': 5}})
                    elif kind_of(c2) == 'i':
                        out.append({a: {a2: 77}})
        else:
            out.append({a: {'pp': 5}})
            out.append({a: None})
    if k in ('L', 'T') and spec[1]:
        out.append({'a0': {'pp': 5}})
        out.append({'x': 3})
    return out


def _plain(p):
    """Patch dictionaries as plain data (an object which appeared inside shows up as its type name)."""
    if isinstance(p, dict):
        return {k: _plain(v) for k, v in p.items()}
    if p is None or isinstance(p, (int, str, float, bool)):
        return p
    return 'object:' + type(p).__name__


def _instances(g):
    """ids of the class instances (opt-in and plain) reachable in a loaded graph."""
    seen, out, todo = set(), set(), [g]
    while todo:
        o = todo.pop()
        if id(o) in seen or o is None or isinstance(o, (int, str, float, bool, bytes)):
            continue
        seen.add(id(o))
        if isinstance(o, (list, tuple, set, frozenset)):
            todo.extend(o)
        elif isinstance(o, dict):
            todo.extend(o.values())
        elif hasattr(o, '__dict__'):
            out.add(id(o))
            todo.extend(o.__dict__.values())
    return out


def cause(spec):
    f = G.features(spec)
    for t in ('plain-top-with-optin-inside', 'optin-in-container-under-optin', 'siblings2+', 'backedge-to-optin'):
        if t in f:
            return t
    return '+'.join(t for t in RISK if t in f) or 'plain-shape'


def _patch_chunk(specs):
    import pyworkers.remote_pickle as rp
    ctx = G.Collector()
    sigs = {}
    skipped = 0
    judged = 0
    for spec in specs:
        g, _ = G.build(spec)
        try:
            data = rp.dumps(g)
            rp.loads(data)
        except BaseException:  # noqa
            skipped += 1
            continue
        if spec[0] == 'R' and spec[1] == 'RTuple':
            continue
        fresh_plain = on_fresh_thread(lambda: G.canon(rp.loads(data)))
        for patches in patch_menu(spec):
            ctx.count()
            judged += 1
            ctx.distinct((repr(spec), repr(patches)))
            case = {'spec': spec, 'patches': patches}
            try:
                want = rp.loads(data)       # the same unpatched load succeeded a moment ago
            except BaseException as e:  # noqa
                sig = 'GRAPH/load-depends-on-history/unpatched-load-fails-after-earlier-loads/%s' % type(e).__name__
                sigs[sig] = sigs.get(sig, 0) + 1
                ctx.outcome('patch:reference-load-fails')
                ctx.violation(sig, case, repr(e)[:200], 'every loads call is independent of earlier ones', engine='GRAPH')
                # isolate the following cases from this thread's residue
                RS = __import__('pyworkers._remote_pickle.state', fromlist=['RemoteState']).RemoteState
                for attr in ('stack', 'iter', 'unused'):
                    if hasattr(RS._active_contexts, attr):
                        delattr(RS._active_contexts, attr)
                continue
            ref_apply(want, copy.deepcopy(patches))
            mine = copy.deepcopy(patches)
            try:
                got = rp.loads(data, extra_kwargs=mine)
            except BaseException as e:  # noqa
                sig = 'GRAPH/patched-load-raises/%s/%s' % (type(e).__name__, cause(spec))
                sigs[sig] = sigs.get(sig, 0) + 1
                ctx.outcome('patch:raises')
                ctx.violation(sig, case, repr(e)[:200], 'load succeeds', engine='GRAPH')
                continue
            a, b = G.canon(want), G.canon(got)
            if a != b:
                sig = 'GRAPH/patch-misapplied/%s' % cause(spec)
                sigs[sig] = sigs.get(sig, 0) + 1
                ctx.outcome('patch:misapplied')
                ctx.violation(sig, case, {'expected': a, 'loaded': b}, 'only the addressed objects differ from the unpatched load', engine='GRAPH')
            else:
                ctx.outcome('patch:ok')
                # the caller's dictionaries are inputs: the call must leave them as they were, so that using them again gives an
                # equal graph which shares nothing with the first one
                if _plain(mine) != _plain(patches):
                    sig = 'GRAPH/callers-patch-dictionaries-modified/%s' % cause(spec)
                    sigs[sig] = sigs.get(sig, 0) + 1
                    ctx.violation(sig, case, {'passed': repr(patches)[:200], 'after_the_call': repr(mine)[:200]},
                                  'loads does not modify the dictionaries it was given', engine='GRAPH')
                else:
                    try:
                        got2 = rp.loads(data, extra_kwargs=mine)
                        shared = _instances(got) & _instances(got2)
                        if G.canon(got2) != b or shared:
                            sig = 'GRAPH/second-load-with-the-same-patches-differs-or-shares-objects/%s' % cause(spec)
                            sigs[sig] = sigs.get(sig, 0) + 1
                            ctx.violation(sig, case, {'shared_objects': len(shared), 'equal': G.canon(got2) == b}, 'independent calls', engine='GRAPH')
                    except BaseException as e:  # noqa
                        sig = 'GRAPH/second-load-with-the-same-patches-raises/%s/%s' % (type(e).__name__, cause(spec))
                        sigs[sig] = sigs.get(sig, 0) + 1
                        ctx.violation(sig, case, repr(e)[:200], 'independent calls', engine='GRAPH')
            # independence: an unpatched load right after equals the same load on a fresh thread
            again = run_op(lambda: G.canon(rp.loads(data)))
            if again != fresh_plain:
                sig = 'GRAPH/residue-after-patched-load/%s' % cause(spec)
                sigs[sig] = sigs.get(sig, 0) + 1
                ctx.violation(sig, case, again, 'a later load is unaffected', engine='GRAPH')
    ctx.skipped = skipped
    ctx.judged = judged
    return ctx


def graph_patch_part(ctx, sigs):
    import pyworkers.remote_pickle as rp
    n_max = 4 if ctx.quick else 5
    specs = []
    for n in range(1, n_max + 1):
        for t in G.gen_trees(n, ('L', 'T', 'D', 'P', 'R'), ('RBase', 'RDuck', 'RNoSet', 'RTuple'), depth=4):
            if any(s[0] == 'R' for s in G._all(t)):
                specs.append(t)
                if n <= 3:
                    specs.extend(G.with_backedges(t))
    specs.extend(f for f in families() if not any(s[0] == 'R' and s[1] == 'RFalsy' for s in G._all(f)))
    skipped = 0
    judged = 0
    for col in G.parallel_chunks(_patch_chunk, specs, chunk=500):
        G.merge_into(ctx, col)
        skipped += col.outcomes.pop('__skipped', 0) if False else col.skipped
        judged += col.judged
        for sg, n_ in col.sigcount.items():
            sigs[sg] = sigs.get(sg, 0) + n_
    ctx.sample({'part': 'graph x patches', 'spec': specs[len(specs) // 2], 'patches': patch_menu(specs[len(specs) // 2])})
    ctx.extra['graphs'] = len(specs)
    ctx.extra['graphs_skipped_unpatched_load_fails'] = skipped
    ctx.extra['graph_patch_pairs'] = judged


# ---- histories ------------------------------------------------------------------------------------------------
class RBoom:
    pass


def history_ops():
    """name -> callable performing one loads call; returns canon or raises."""
    import pyworkers.remote_pickle as rp
    from pyworkers.remote_pickle import SupportRemoteGetState
    G._uid[0] = 100000          # every instance of the alphabet builds identical graphs
    if 'RBoomC' not in G.__dict__:
        def __getstate__(self, remote=False):
            return dict(self.__dict__)

        def __setstate__(self, state):
            if state.get('boom'):
                raise ValueError('setstate fails')
            self.__dict__.update(state)
        c = type('RBoomC', (SupportRemoteGetState,), {'__getstate__': __getstate__, '__setstate__': __setstate__, '__module__': G.__name__})
        c.__qualname__ = 'RBoomC'
        G.__dict__['RBoomC'] = c
    RBoomC = G.__dict__['RBoomC']
    good_spec = ('R', 'RBase', [('a', ('R', 'RBase', [('x', ('i', 1))])), ('n', ('i', 5))])
    g, _ = G.build(good_spec)
    good = rp.dumps(g)
    chain_spec = ('R', 'RBase', [('a', ('R', 'RNoSet', [('b', ('R', 'RBase', [('y', ('i', 2))]))]))])
    g3, _ = G.build(chain_spec)
    chain = rp.dumps(g3)
    sib_spec = ('R', 'RBase', [('a', ('R', 'RBase', [])), ('b', ('R', 'RBase', []))])
    gs, _ = G.build(sib_spec)
    sib = rp.dumps(gs)
    # raising __setstate__ at depth 1, 2 and 3 of a chain
    def boom_chain(depth):
        top = RBoomC()
        cur = top
        for i in range(depth - 1):
            nxt = RBoomC()
            cur.child = nxt
            cur = nxt
        cur.boom = True
        return rp.dumps(top)
    booms = {d: boom_chain(d) for d in (1, 2, 3)}
    good2 = rp.dumps(g, 2)
    go, _ = G.build(('R', 'RBase', [('a', ('R', 'RBase', [('x', ('i', 100)), ('extra', ('i', 7))])), ('n', ('i', 6)), ('m', ('i', 1))]))
    other = rp.dumps(go)
    P1 = {'n': 9, 'a': {'x': 2}}
    P2 = {'a': {'b': {'y': 8}}, 'top': 1}
    shared = {'n': 9, 'a': {'x': 2}}      # one dictionary object the caller keeps passing to several calls
    ops = {
        'good+same-patch-object': lambda: G.canon(rp.loads(good, extra_kwargs=shared)),
        'other+same-patch-object': lambda: G.canon(rp.loads(other, extra_kwargs=shared)),
        'good+patch': lambda: G.canon(rp.loads(good, extra_kwargs=copy.deepcopy(P1))),
        'good': lambda: G.canon(rp.loads(good)),
        'chain+patch': lambda: G.canon(rp.loads(chain, extra_kwargs=copy.deepcopy(P2))),
        'plainlist+patch': lambda: G.canon(rp.loads(rp.dumps([1, 2]), extra_kwargs={'k': 1})),
        'corrupt-half': lambda: G.canon(rp.loads(good2[:len(good2) * 2 // 3], extra_kwargs=copy.deepcopy(P1))),
        'corrupt-tail': lambda: G.canon(rp.loads(good2[:-2])),
        'boom1': lambda: G.canon(rp.loads(booms[1], extra_kwargs={'q': 1})),
        'boom2': lambda: G.canon(rp.loads(booms[2])),
        'boom3+patch': lambda: G.canon(rp.loads(booms[3], extra_kwargs={'child': {'w': 1}})),
        'siblings': lambda: G.canon(rp.loads(sib)),
    }
    return ops


def run_op(f):
    try:
        return ('ok', f())
    except BaseException as e:  # noqa
        return ('exc', type(e).__name__)


def on_fresh_thread(f):
    box = []
    t = threading.Thread(target=lambda: box.append(run_op(f)))
    t.start()
    t.join()
    return box[0]


def history_part(ctx, sigs):
    import itertools
    ops = history_ops()
    names = sorted(ops)
    fresh = {n: on_fresh_thread(history_ops()[n]) for n in names}
    ctx.extra['history_alphabet'] = {n: (fresh[n][0] if fresh[n][0] == 'ok' else fresh[n][1]) for n in names}
    depth = 3 if ctx.quick else 4
    nh = 0
    for d in range(1, depth + 1):
        for hist in itertools.product(names, repeat=d):
            res = []
            hops = history_ops() if any('same-patch-object' in n for n in hist) else ops     # a fresh caller-owned dictionary per history

            def body():
                for n in hist:
                    res.append(run_op(hops[n]))
            t = threading.Thread(target=body)     # one thread per history: the "same thread" of the statement
            t.start()
            t.join()
            nh += 1
            ctx.count()
            ctx.distinct(('hist',) + hist)
            bad = [i for i, n in enumerate(hist) if res[i] != fresh[n]]
            ctx.outcome('history:' + ('ok' if not bad else 'differs'))
            if bad:
                i = bad[0]
                prev = [hist[j] for j in range(i)]
                failing_before = sorted(set(p for p in prev if fresh[p][0] == 'exc'))
                sig = 'SEQ/load-depends-on-history/%s-after-%s' % (hist[i], '+'.join(failing_before) or 'successful-loads')
                sigs[sig] = sigs.get(sig, 0) + 1
                ctx.violation(sig, {'history': list(hist), 'first_differing_call': i},
                              {'got': res[i], 'fresh_thread': fresh[hist[i]]}, 'same result as on a fresh thread', engine='SEQ')
    ctx.sample({'part': 'histories', 'depth': depth, 'alphabet': names, 'histories': nh})
    ctx.extra['histories'] = nh


# ---- concurrent loads ---------------------------------------------------------------------------------------------
def sched_part(ctx, sigs):
    import pyworkers.remote_pickle as rp
    ops = history_ops()
    pairs = [('good+patch', 'chain+patch'), ('boom2', 'good+patch')]
    if not ctx.quick:
        pairs += [('good+patch', 'good'), ('chain+patch', 'chain+patch'), ('siblings', 'good+patch'), ('good+patch', 'good+patch', 'good')]
    seqres = {n: on_fresh_thread(ops[n]) for n in ops}
    sched = Sched(files=('_remote_pickle/state.py',), max_points=50000)
    total = 0
    try:
        for pair in pairs:
            # preemption bound 2 multiplies the schedules by the number of switch points (~150 per load): only the first pair gets it
            bound = 2 if (not ctx.quick and pair == pairs[0]) else 1
            distinct = set()

            def make():
                bodies = [(lambda n=n: run_op(ops[n])) for n in pair]
                return bodies, (lambda ex: list(ex.results))

            def on_exec(ex, obs, choices):
                ctx.count()
                distinct.add(tuple(choices))
                bad = [i for i, n in enumerate(pair) if obs[i] != seqres[n]]
                ctx.outcome('concurrent:' + ('ok' if not bad else 'differs'))
                if bad or any(ex.errors):
                    sig = 'SCHED/concurrent-loads-interfere/%s' % '||'.join(pair)
                    sigs[sig] = sigs.get(sig, 0) + 1
                    ctx.violation(sig, {'loads': list(pair), 'schedule': choices, 'preemptions': ex.preemptions},
                                  {'got': [o if o is None or o[0] == 'exc' else 'ok-but-different' for o in obs], 'errors': [repr(e) for e in ex.errors if e]},
                                  'each load equals its sequential result', engine='SCHED')
            try:
                st = sched.explore(make, bound, on_exec, max_execs=(8000 if ctx.quick else 15000))
            except Deadlock as e:
                ctx.violation('SCHED/deadlock', {'loads': list(pair)}, str(e), 'no deadlock', engine='SCHED')
                st = {'executions': 0, 'capped': False}
            if st['capped']:
                ctx.cap('SCHED %s stopped after %d schedules (bound %d)' % ('||'.join(pair), st['executions'], bound))
            total += st['executions']
            ctx.distinct(('sched', pair, bound))
            ctx.sample({'part': 'concurrent loads', 'loads': list(pair), 'preemption_bound': bound, 'schedules': st['executions']})
    finally:
        sched.uninstall()
    ctx.extra['sched_schedules'] = total


def special_states_part(ctx, sigs):
    """State shapes the enumerated variants do not have: a state dict which is itself shared with other parts of the graph, and a
    child without any remote state (None) below a patched parent."""
    import pyworkers.remote_pickle as rp

    g = G.__dict__
    if 'ShEndpoint' not in g:
        def ep_get(self, remote=False):
            return self.opts                       # the very dictionary other objects refer to as well
        def ep_set(self, st):
            self.opts = st
        def svc_get(self, remote=False):
            return dict(self.__dict__)
        def svc_set(self, st):
            self.__dict__.update(st)
        def none_get(self, remote=False):
            return None                            # nothing to transmit
        for name, ns in (('ShEndpoint', {'__getstate__': ep_get, '__setstate__': ep_set}), ('ShService', {'__getstate__': svc_get, '__setstate__': svc_set}),
                         ('ShStateless', {'__getstate__': none_get})):
            c = type(name, (rp.SupportRemoteGetState,), dict(ns, __module__=G.__name__, __qualname__=name))
            g[name] = c
    Ep, Svc, Nil = g['ShEndpoint'], g['ShService'], g['ShStateless']

    def view(o):
        if isinstance(o, (Ep,)):
            return ['Ep', view(o.opts)]
        if isinstance(o, Svc):
            return ['Svc', sorted([k, view(v)] for k, v in o.__dict__.items())]
        if isinstance(o, Nil):
            return ['Nil', sorted(o.__dict__)]
        if isinstance(o, dict):
            return {k: view(v) for k, v in o.items()}
        return o
    cases = []
    # 1) the child's state dictionary is shared with an attribute of the parent and with a plain container
    def shared():
        sh = {'x': 1, 'y': 2}
        ep = Ep.__new__(Ep)
        ep.opts = sh
        svc = Svc.__new__(Svc)
        svc.__dict__.update(ep=ep, defaults=sh, table={'again': sh}, n=3)
        return svc
    cases.append(('shared-state-dict', shared, {'ep': {'x': 9}},
                  ['Svc', [['defaults', {'x': 1, 'y': 2}], ['ep', ['Ep', {'x': 9, 'y': 2}]], ['n', 3], ['table', {'again': {'x': 1, 'y': 2}}]]]))
    cases.append(('shared-state-dict', shared, {'n': 4, 'ep': {'z': 0}},
                  ['Svc', [['defaults', {'x': 1, 'y': 2}], ['ep', ['Ep', {'x': 1, 'y': 2, 'z': 0}]], ['n', 4], ['table', {'again': {'x': 1, 'y': 2}}]]]))
    # 2) a child with no remote state at all below patched ancestors
    def stateless_chain():
        top = Svc.__new__(Svc)
        mid = Svc.__new__(Svc)
        mid.__dict__.update(x=1, nil=Nil.__new__(Nil))
        top.__dict__.update(y=1, mid=mid)
        return top
    cases.append(('stateless-child', stateless_chain, {'y': 5, 'mid': {'x': 10}},
                  ['Svc', [['mid', ['Svc', [['nil', ['Nil', []]], ['x', 10]]]], ['y', 5]]]))
    cases.append(('stateless-child', stateless_chain, {'mid': {'x': 10}},
                  ['Svc', [['mid', ['Svc', [['nil', ['Nil', []]], ['x', 10]]]], ['y', 1]]]))
    for what, mk, patches, want in cases:
        ctx.count()
        ctx.distinct(('special', what, repr(patches)))
        try:
            got = view(rp.loads(rp.dumps(mk()), extra_kwargs=copy.deepcopy(patches)))
            after = run_op(lambda: G.canon(rp.loads(rp.dumps([1, 2]))))
        except BaseException as e:  # noqa
            got, after = 'raises ' + repr(e)[:120], None
        ok = got == want and after == ('ok', G.canon([1, 2]))
        ctx.outcome('special:%s:%s' % (what, 'ok' if ok else 'bad'))
        if not ok:
            sig = 'GRAPH/%s/%s' % (what, 'patched-load-raises' if isinstance(got, str) else ('patch-misapplied' if got != want else 'later-load-affected'))
            sigs[sig] = sigs.get(sig, 0) + 1
            ctx.violation(sig, {'part': 'special-states', 'what': what, 'patches': patches}, {'loaded': got, 'expected': want, 'plain_load_afterwards': after},
                          'only the addressed objects differ from the unpatched load', engine='GRAPH')


def run(ctx):
    import logging
    logging.disable(logging.CRITICAL)
    ctx.rule = ('(graph, patch dictionary) pairs: graphs as in C14, patch menu derived from the top-level state; histories: all sequences '
                'of loads calls over a 12-call alphabet (good, patched, corrupt, raising __setstate__ at depth 1-3, two-sibling failure) '
                'up to the depth bound; concurrent loads: all schedules within the preemption bound; distinct = pair / history / scenario')
    ctx.assumptions = ['the harness passes a fresh deep copy of the patch dictionary to every call (the library writes restored children into it)']
    sigs = {}
    only = getattr(ctx, 'only', None)
    if only in (None, 'graph'):
        graph_patch_part(ctx, sigs)
        special_states_part(ctx, sigs)
    if only in (None, 'hist'):
        history_part(ctx, sigs)
    if only in (None, 'sched'):
        sched_part(ctx, sigs)
    ctx.extra['failure_signatures'] = sigs


def replay(ctx, rec):
    if rec['case'].get('part') == 'special-states':
        import logging
        logging.disable(logging.CRITICAL)
        special_states_part(ctx, {})
        return
    _replay(ctx, rec)


def _replay(ctx, rec):
    import logging
    logging.disable(logging.CRITICAL)
    import pyworkers.remote_pickle as rp
    c = rec['case']
    ctx.count()
    if 'spec' in c:
        spec = tup(c['spec'])
        g, _ = G.build(spec)
        data = rp.dumps(g)
        want = rp.loads(data)
        ref_apply(want, copy.deepcopy(c['patches']))
        try:
            got = G.canon(rp.loads(data, extra_kwargs=copy.deepcopy(c['patches'])))
        except BaseException as e:  # noqa
            got = repr(e)
        print('expected', G.canon(want))
        print('loaded  ', got)
        if got != G.canon(want):
            ctx.violation(rec['signature'], c, got, G.canon(want), engine='GRAPH')
    else:
        print('re-run the check for history/schedule cases:', c)
