"""C14 - every opt-in object, wherever it sits, is serialised remotely exactly once (GRAPH)."""
import pickle

from .. import graph as G

LEVEL = 'exploration'
ENGINE = 'GRAPH'
TECHNIQUE = 'bounded exhaustive enumeration of object graphs (every ordered tree up to a node bound over 5 node kinds x 5 opt-in class variants, plus every single back-edge) and of (state shape x class layout x position) for opt-in classes without __setstate__, against the real remote_pickle dumps/loads and the standard unpickler'
LEVEL_TEXT = ('every graph up to the node bound is dumped and loaded with the real remote_pickle; oracle: per opt-in instance exactly one __getstate__(remote=True), restored through its __setstate__ exactly once if it has one, and the loaded graph is structurally equal (with sharing and cycles) to the original with remote states')
LEVEL_NOTE = 'graphs beyond the node bound and class features outside the listed variants (dict/tuple/falsy/None/(dict, slots) states, with/without __setstate__, __slots__ layouts, base-class/duck-typed opt-in) are not explored'

RISK = ('siblings2+', 'no-setstate', 'falsy-state', 'backedge-to-optin', 'optin-in-container-under-optin', 'tuple-state', 'duck', 'plain-top-with-optin-inside')


def tagstr(spec):
    f = G.features(spec)
    return '+'.join(t for t in RISK if t in f) or 'plain-shape'


def check_graph(ctx, spec, protocol, sigs):
    import pyworkers.remote_pickle as rp
    g, nodes = G.build(spec)
    uids = [(o.__dict__['uid'], type(o).__name__) for o in nodes if type(o).__name__ in G.VARIANTS]
    case = {'spec': spec, 'protocol': protocol}
    del G.LOG[:]
    try:
        data = rp.dumps(g, protocol)
    except BaseException as e:  # noqa
        return fail(ctx, sigs, 'dump-raises/' + type(e).__name__, spec, case, repr(e)[:200])
    gets = list(G.LOG)
    for uid, cn in uids:
        ev = [e for e in gets if e[1] == uid]
        if ev != [('get', uid, True)]:
            return fail(ctx, sigs, 'getstate-not-exactly-once-remote', spec, case, {'uid': uid, 'class': cn, 'events': ev})
    del G.LOG[:]
    try:
        h = rp.loads(data)
    except BaseException as e:  # noqa
        return fail(ctx, sigs, 'load-raises/' + type(e).__name__, spec, case, repr(e)[:200])
    sets = list(G.LOG)
    nfalsy = sum(1 for _, cn in uids if cn == 'RFalsy')
    for uid, cn in uids:
        if cn == 'RFalsy':
            continue     # its remote state carries no uid; counted below
        ev = [e for e in sets if e[1] == uid and e[0] == 'set']
        want = 0 if cn == 'RNoSet' else 1
        if len(ev) != want:
            return fail(ctx, sigs, 'setstate-count', spec, case, {'uid': uid, 'class': cn, 'set_calls': len(ev)})
    if sum(1 for e in sets if e == ('set', None)) != nfalsy:
        return fail(ctx, sigs, 'setstate-count', spec, case, {'class': 'RFalsy', 'set_calls': sum(1 for e in sets if e == ('set', None)), 'instances': nfalsy})
    for o in nodes:
        if type(o).__name__ == 'RFalsy':
            o.__dict__.clear()
            o.__dict__['_rebuilt'] = True
        elif type(o).__name__ in G.VARIANTS:
            o.__dict__['_how'] = 'remote'
    a, b = G.canon(g), G.canon(h)
    if a != b:
        return fail(ctx, sigs, 'graph-differs', spec, case, {'expected': a, 'loaded': b})
    return True


def cause(what, spec):
    """The class of graph a failure belongs to: the first feature (in order of specificity) that the graph exhibits."""
    f = G.features(spec)
    if 'AttributeError' in what and 'no-setstate' in f:
        return 'no-setstate'
    if 'siblings2+' in f:
        return 'siblings2+'
    return tagstr(spec)


def fail(ctx, sigs, what, spec, case, observed):
    sig = 'GRAPH/%s/%s' % (what, cause(what, spec))
    ctx.violation(sig, case, observed, 'dumps/loads succeed, one remote __getstate__ and one __setstate__ per opt-in instance, same shape', engine='GRAPH')
    sigs[sig] = sigs.get(sig, 0) + 1
    return False


def _chunk(specs, protos):
    col = G.Collector()
    sigs = {}
    for spec in specs:
        for p in protos:
            col.count()
            ok = check_graph(col, spec, p, sigs)
            col.distinct(None)
            col.outcome('ok' if ok else 'fails')
    return col


def families():
    """Targeted larger shapes the property names."""
    out = []
    for v in G.VARIANTS:
        leaf = lambda: ('R', v, [('x', ('i', 1))])  # noqa
        out.append(('R', v, [('a', leaf()), ('b', leaf())]))
        out.append(('R', v, [('a', leaf()), ('b', leaf()), ('c', leaf())]))
        out.append(('R', v, [('a', ('R', v, [('b', ('R', v, [('c', ('i', 3))]))]))]))
        out.append(('L', [leaf(), leaf(), leaf(), leaf()]))
        out.append(('D', [('p', leaf()), ('q', ('T', [leaf(), ('L', [leaf()])]))]))
        out.append(('P', [('h1', ('L', [leaf()])), ('h2', ('L', [('ref', 3)]))]))           # shared between two holders
        out.append(('R', v, [('a', leaf()), ('b', ('ref', 1))]))                               # shared under one parent
        out.append(('R', v, [('self', ('ref', 0))]))                                           # self cycle
        out.append(('R', v, [('child', ('R', v, [('parent', ('ref', 0))]))]))                  # cycle through parent
        out.append(('R', v, [('lst', ('L', [leaf(), leaf()]))]))
        out.append(('R', v, [('d', ('D', [('k', leaf())])), ('n', ('i', 0))]))
    mixed = ('R', 'RBase', [('a', ('R', 'RDuck', [('x', ('i', 1))])), ('p', ('P', [('r', ('R', 'RTuple', [('y', ('i', 2))]))]))])
    out.append(mixed)
    return out


# ---- state shapes x class layouts (mostly opt-in classes without __setstate__) --------------------------------------------------------------------
# Such an object is restored the way the unpickler's own BUILD does it: dict state into __dict__, (dict|None, slot state) pairs with
# setattr for the slots, a falsy state is ignored. The enumeration: state shape x class layout x position in the graph x protocol;
# oracle: the same object pickled with the standard pickle (same state, flag aside).
SHAPES = ('dict', 'pair', 'pair-none', 'pair-empty-slots', 'none', 'empty')
LAYOUTS = ('dict-only', 'slots+dict', 'slots-only', 'dict+setattr', 'dict+setstate')
POSITIONS = ('top', 'child', 'in-list', 'in-dict-under-plain', 'chain')


def _noset_class(layout, shape):
    import pyworkers.remote_pickle as rp
    name = 'NS_%s_%s' % (layout.replace('+', '_').replace('-', '_'), shape.replace('-', '_'))
    g = G.__dict__
    if name in g:
        return g[name]

    def __getstate__(self, remote=False):
        G.LOG.append(('get', getattr(self, 'uid', None), bool(remote)))
        d = dict(getattr(self, '__dict__', {}))
        sl = {k: getattr(self, k) for k in ('sx', 'sy', 'uid') if k in getattr(type(self), '__slots__', ()) and hasattr(self, k)}
        return {'dict': d or sl, 'pair': (d, sl), 'pair-none': (None, sl), 'pair-empty-slots': (d, {}), 'none': None, 'empty': {}}[shape]
    ns = {'__getstate__': __getstate__, '__module__': G.__name__, '__qualname__': name}
    if layout == 'dict+setstate':
        # the class restores itself: the unpickler calls __setstate__ for every state but None (and only then)
        def __setstate__(self, state):
            self.__dict__['_setstate_called_with'] = 'dict' if isinstance(state, dict) else type(state).__name__
            if isinstance(state, tuple):
                state = state[0] or {}
            self.__dict__.update(state or {})
        ns['__setstate__'] = __setstate__
    if layout == 'dict+setattr':
        # attribute assignment is customised (dirty tracking): the unpickler restores a dict state straight into __dict__
        def __setattr__(self, k, v):
            object.__setattr__(self, k, v)
            object.__setattr__(self, '_touched', True)
        ns['__setattr__'] = __setattr__
    if layout == 'slots+dict':
        ns['__slots__'] = ('sx', 'sy')            # the marker base class brings the __dict__
    elif layout == 'slots-only':
        ns['__slots__'] = ('sx', 'sy', 'uid', 'kid')
    # no __dict__ at all is only possible for a duck-typed opt-in class
    c = type(name, (object,) if layout == 'slots-only' else (rp.SupportRemoteGetState,), ns)
    g[name] = c
    return c


def _noset_valid(layout, shape):
    if layout in ('dict-only', 'dict+setattr', 'dict+setstate'):
        return shape in ('dict', 'pair-empty-slots', 'none', 'empty')
    if layout == 'slots-only':
        return shape in ('pair-none', 'none', 'empty')
    return True


def _noset_make(layout, shape, position, n):
    cls = _noset_class(layout, shape)

    def one(i, kid=None):
        o = cls.__new__(cls)
        if layout != 'slots-only':
            o.__dict__['uid'] = 'u%d' % i
            o.__dict__['v'] = [i, 'x']
            if kid is not None:
                o.__dict__['kid'] = kid
        else:
            o.uid = 'u%d' % i
            if kid is not None:
                o.kid = kid
        if layout not in ('dict-only', 'dict+setattr', 'dict+setstate'):
            o.sx = i * 10
            o.sy = ['slot', i]
        return o
    if position == 'top':
        return one(1)
    if position == 'child':
        parent = G.build(('R', 'RBase', [('a', ('i', 1))]))[0]
        parent.__dict__['uid'] = 'parent'
        parent.__dict__['c'] = one(1)
        return parent
    if position == 'in-list':
        return [one(1), 7]
    if position == 'in-dict-under-plain':
        p = G.Plain()
        p.__dict__['d'] = {'k': one(1)}
        return p
    return one(1, kid=one(2))


def _noset_view(o, seen=None):
    """Canonical view including slots."""
    if isinstance(o, list):
        return ['L'] + [_noset_view(x) for x in o]
    if isinstance(o, dict):
        return ['D'] + [[k, _noset_view(v)] for k, v in o.items()]
    if hasattr(o, '__dict__') or hasattr(type(o), '__slots__'):
        d = dict(getattr(o, '__dict__', {}))
        d.pop('_how', None)
        items = [[k, _noset_view(v)] for k, v in sorted(d.items())]
        for k in getattr(type(o), '__slots__', ()):
            if k != '__dict__':
                items.append(['slot:' + k, _noset_view(getattr(o, k)) if hasattr(o, k) else '<unset>'])
        return ['O', type(o).__name__, items]
    return o


def noset_part(ctx, protos):
    import pyworkers.remote_pickle as rp
    n = 0
    for layout in LAYOUTS:
        for shape in SHAPES:
            if not _noset_valid(layout, shape):
                continue
            for position in POSITIONS:
                if position == 'chain' and (shape in ('none', 'empty') or (layout == 'slots-only' and False)):
                    continue       # a state which transmits nothing has no child to carry
                for p in protos:
                    if layout == 'dict+setstate' and shape == 'empty' and p in (0, 1):
                        continue      # copyreg._reduce_ex (protocols 0 and 1) drops a falsy state altogether: a quirk of those protocols, not the reference
                    ctx.count()
                    ctx.distinct(('noset', layout, shape, position, p))
                    n += 1
                    case = {'part': 'no-setstate-state-shapes', 'layout': layout, 'shape': shape, 'position': position, 'protocol': p}
                    g1 = _noset_make(layout, shape, position, 1)
                    g2 = _noset_make(layout, shape, position, 1)
                    try:
                        ref = ('ok', _noset_view(pickle.loads(pickle.dumps(g2, p))))
                    except BaseException as e:  # noqa
                        ref = ('exc', type(e).__name__)
                    del G.LOG[:]
                    try:
                        got = ('ok', _noset_view(rp.loads(rp.dumps(g1, p))))
                    except BaseException as e:  # noqa
                        got = ('exc', type(e).__name__)
                    flags = [e for e in G.LOG if e[0] == 'get' and str(e[1]).startswith('u')]
                    ok = got == ref and (got[0] != 'ok' or all(e[2] is True for e in flags))
                    ctx.outcome('noset:' + ('ok' if ok else 'differs'))
                    if not ok:
                        what = 'raises-' + got[1] if got[0] == 'exc' and ref[0] == 'ok' else ('state-restored-differently-from-pickle' if got != ref else 'getstate-not-remote')
                        ctx.violation('GRAPH/no-setstate-state-shapes/%s/%s/%s' % (layout, shape, what), case,
                                      {'remote_pickle': repr(got)[:300], 'pickle': repr(ref)[:300], 'getstate_calls': flags[:6]},
                                      'restored like the unpickler restores the same state, __getstate__(remote=True) once per instance', engine='GRAPH')
    ctx.extra['no_setstate_state_shape_cases'] = n


# ---- multiple inheritance x the order in which classes are first met ------------------------------------------------------
def mixin_part(ctx):
    """The remote-aware __getstate__ comes from a base listed after (or before) a plain mix-in; the classes of a case are new,
    what varies is which of them the pickler has met before (earlier in the same graph, in an earlier dumps call, not at all)."""
    import itertools
    import pyworkers.remote_pickle as rp
    n = 0
    for marker, mixin_first, mixin_has_getstate, history in itertools.product((True, False), (True, False), (False, True),
                                                                               ('none', 'mixin-earlier-in-graph', 'mixin-later-in-graph',
                                                                                'mixin-in-earlier-dumps', 'base-in-earlier-dumps')):
        n += 1
        ctx.count()
        ctx.distinct(('mixin', marker, mixin_first, mixin_has_getstate, history))
        calls = []
        ns_mixin = {'__module__': G.__name__}
        if mixin_has_getstate:
            ns_mixin['__getstate__'] = lambda self: dict(self.__dict__)           # a plain signature: not remote-aware
        Mixin = type('MixPlain%d' % n, (object,), ns_mixin)

        def getstate(self, remote=False):
            calls.append((type(self).__name__, bool(remote)))
            return dict(self.__dict__)
        Base = type('MixBase%d' % n, (rp.SupportRemoteGetState,) if marker else (object,),
                    {'__module__': G.__name__, '__getstate__': getstate, '__setstate__': lambda self, st: self.__dict__.update(st)})
        try:
            Part = type('MixPart%d' % n, (Mixin, Base) if mixin_first else (Base, Mixin), {'__module__': G.__name__})
        except Warning:
            ctx.outcome('mixin:rejected-by-the-metaclass')       # the inconsistent-signature clause (C13) refuses the class
            continue
        for c in (Mixin, Base, Part):
            c.__qualname__ = c.__name__
            setattr(G, c.__name__, c)
        if mixin_first and mixin_has_getstate:
            continue          # the mix-in's plain __getstate__ wins the MRO: Part is not remote-aware, nothing to check
        part = Part()
        part.v = 5
        try:
            if history == 'mixin-in-earlier-dumps':
                rp.dumps([Mixin()])
            elif history == 'base-in-earlier-dumps':
                rp.dumps([Base()])
            del calls[:]
            graph = {'none': [part], 'mixin-earlier-in-graph': [Mixin(), part], 'mixin-later-in-graph': [part, Mixin()]}.get(history, [part])
            loaded = rp.loads(rp.dumps(graph))
            got = [c for c in calls if c[0] == Part.__name__]
            lp = [o for o in loaded if type(o) is Part]
            ok = got == [(Part.__name__, True)] and len(lp) == 1 and lp[0].__dict__.get('v') == 5
            detail = {'getstate_calls_for_the_part': got}
        except BaseException as e:  # noqa
            ok = False
            detail = {'raises': repr(e)[:200]}
        ctx.outcome('mixin:' + ('ok' if ok else 'bad'))
        if not ok:
            ctx.violation('GRAPH/multiple-inheritance/%s/%s/%s' % ('marker-base' if marker else 'duck-typed', 'mixin-first' if mixin_first else 'base-first', history),
                          {'part': 'multiple-inheritance', 'marker': marker, 'mixin_first': mixin_first, 'mixin_has_getstate': mixin_has_getstate, 'history': history},
                          detail, 'the object is serialised with remote=True exactly once and comes back', engine='GRAPH')
    ctx.extra['multiple_inheritance_cases'] = n


def run(ctx):
    import logging
    logging.disable(logging.CRITICAL)
    n_max = 4 if ctx.quick else 5
    protos = (None, 2) if ctx.quick else (0, 1, 2, 3, 4, 5)
    ctx.rule = ('graphs = every ordered tree with <= %d nodes over {list, tuple, dict, plain instance, opt-in instance x %d class '
                'variants} with scalar leaves, each also with every single back-edge (sharing or cycle), plus targeted families '
                '(2/3 siblings, depth-3 chains, 4 opt-in instances, shared, cyclic); only graphs with >= 1 opt-in instance; x pickle '
                'protocols %s; distinct = (graph, protocol)' % (n_max, len(G.VARIANTS), list(protos)))
    sigs = {}
    specs = []
    kinds = ('L', 'T', 'D', 'P', 'R')
    for n in range(1, n_max + 1):
        for t in G.gen_trees(n, kinds, G.VARIANTS, depth=4):
            if any(s[0] == 'R' and s[1] == 'RFalsy' and s[2] for s in G._all(t)):
                continue     # the falsy-state variant transmits nothing: only meaningful as a leaf
            if any(s[0] == 'R' for s in G._all(t)):
                specs.append(t)
                if n <= 4:
                    specs.extend(G.with_backedges(t))
    fam = [f for f in families() if not any(s[0] == 'R' and s[1] == 'RFalsy' and s[2] for s in G._all(f))]
    specs.extend(fam)
    for f in fam:
        specs.extend(G.with_backedges(f)[:40])
    specs = [t for t in specs if not any(s[0] == 'R' and s[1] == 'RFalsy' and s[2] for s in G._all(t))]
    ngood = 0
    for col in G.parallel_chunks(_chunk, specs, extra=(protos,)):
        G.merge_into(ctx, col)
        ngood += col.outcomes.get('ok', 0)
        for sg, n_ in col.sigcount.items():
            sigs[sg] = sigs.get(sg, 0) + n_
    # distinct cases were counted inside the shards (every (graph, protocol) pair is distinct by construction)

    noset_part(ctx, (None, 0, 2) if ctx.quick else (None, 0, 1, 2, 3, 4, 5))
    mixin_part(ctx)
    ctx.sample({'spec': specs[len(specs) // 2], 'features': sorted(G.features(specs[len(specs) // 2]))})
    ctx.sample({'spec': specs[-1], 'features': sorted(G.features(specs[-1]))})
    ctx.extra['graphs'] = len(specs)
    ctx.extra['graphs_passing'] = ngood
    ctx.extra['failure_signatures'] = sigs
    if ngood == 0:
        ctx.selftest_fail('no graph passed: harness problem')


def replay(ctx, rec):
    import json
    if rec['case'].get('part') == 'multiple-inheritance':
        import logging
        logging.disable(logging.CRITICAL)
        mixin_part(ctx)
        return
    if rec['case'].get('part') == 'no-setstate-state-shapes':
        import logging
        logging.disable(logging.CRITICAL)
        noset_part(ctx, (rec['case']['protocol'],))
        return
    spec = json.loads(json.dumps(rec['case']['spec']))
    sigs = {}
    ctx.count()
    print('ok' if check_graph(ctx, tup(spec), rec['case']['protocol'], sigs) else sigs)


def tup(s):
    """JSON turned tuples into lists: restore the spec shape."""
    k = s[0]
    if k == 'i':
        return ('i', s[1])
    if k == 'ref':
        return ('ref', s[1])
    if k == 'S':
        return ('S', list(s[1]))
    if k in ('L', 'T'):
        return (k, [tup(c) for c in s[1]])
    if k in ('D', 'P'):
        return (k, [(a, tup(c)) for a, c in s[1]])
    if k == 'R':
        return ('R', s[1], [(a, tup(c)) for a, c in s[2]])
