"""C01 - a dead worker always has one definite, consistent and stable outcome (LAND)."""
import os

from .. import land
from .c03 import WTE, describe

LEVEL = 'fault_enumeration'
ENGINE = 'LAND'
TECHNIQUE = 'exhaustive enumeration of endings: every line-level landing point of a graceful terminate, of SIGKILL (thorough: SIGTERM) and of a KeyboardInterrupt inside the real child along two base paths per worker class, pairs of graceful requests on thread kinds, plus the natural endings (return values, Exception, BaseException, unrebuildable values, results bigger than the buffers with a slow consumer or a kill during the send) x the three ways of observing death'
LEVEL_TEXT = ('one real run per (worker class, ending, landing point, way of observing death); after death is observed the four accessors are read four times; oracle: nothing raises or blocks, is_alive False, has_error True/False, exactly shape A (False, value, None) or B (True, None, error) with the expected value/error for that ending, identical in all rounds')
LEVEL_NOTE = 'one asynchronous event per run; quick tier collapses callee frames outside the run-loop functions; torn sends inside the OS write are approximated by SIGKILL at every line around the send (the kernel write itself is atomic for the sizes used) and by the blocked-in-write scenario'

REPO = os.environ.get('PWV_REPO', '/repo')
VALERR = {'exc': 'ValueError', 'args': ['a', 1]}

NATURAL = {
    't_none': ('A', None), 't_zero': ('A', 0), 't_ret_now': ('A', 7), 't_loop': ('A', 7), 't_big': ('A', 'bytes[1048576]'),
    't_raise': ('B', VALERR), 't_raise_now': ('B', VALERR),
    't_baseexc': ('B?', {'exc': 'MyBaseExc', 'args': ['base', 2]}), 't_sysexit': ('B?', {'exc': 'SystemExit', 'args': [3]}),
    't_unrebuildable_exc': ('B?', {'exc': 'NeedsTwo', 'args': ['1-2']}), 't_unrebuildable_result': ('?', None),
}


def natural_cases(quick):
    out = []
    for kind in ('T', 'P', 'R'):
        for tgt in NATURAL:
            for obsv in ('wait', 'terminate', 'poll'):
                if quick and obsv != 'wait' and tgt not in ('t_none', 't_raise', 't_unrebuildable_exc', 't_big'):
                    continue
                out.append({'kind': kind, 'target': tgt, 'events': [], 'observe': obsv, 'ending': 'natural', 'timeout': 6})
    # a kill signal while the child is part-way through sending a result bigger than the pipe / socket buffers
    # (the parent is not reading: process kinds; the parent's frontend is held back before it reads: remote kind)
    for sig in ('KILL', 'TERM'):
        for obsv in ('wait', 'poll'):
            out.append({'kind': 'P', 'target': 't_big', 'targs': {'size': 4 << 20}, 'events': [], 'observe': obsv, 'ending': 'killed-in-send',
                        'kill_after': {'delay': 0.5, 'sig': sig}, 'timeout': 6})
            out.append({'kind': 'R', 'target': 't_big', 'targs': {'size': 8 << 20}, 'events': [], 'observe': obsv, 'ending': 'killed-in-send',
                        'kill_after': {'delay': 0.5, 'sig': sig}, 'timeout': 6, 'frontend_delay': {'comment_prefix': 'data: result', 'seconds': 1.2}})
    for kind in ('PT', 'PP', 'PR'):
        for obsv in ('wait', 'terminate', 'poll'):
            out.append({'kind': kind, 'target': 'p_echo', 'inputs': [1, 2], 'close': True, 'events': [], 'observe': obsv, 'ending': 'natural'})
            out.append({'kind': kind, 'target': 'p_poison', 'inputs': [1, 99, 3], 'close': True, 'events': [], 'observe': obsv, 'ending': 'natural'})
            out.append({'kind': kind, 'target': 'p_echo', 'inputs': [], 'close': True, 'events': [], 'observe': obsv, 'ending': 'natural'})
            out.append({'kind': kind, 'target': 'p_sysexit', 'inputs': [1, 99, 3], 'close': True, 'events': [], 'observe': obsv, 'ending': 'natural'})
    return out


def landing_scenarios(quick):
    out = []
    for kind in ('T', 'P', 'R'):
        for tgt in ('t_loop', 't_raise'):
            out.append({'kind': kind, 'target': tgt, 'ending': 'landing'})
    # a result much bigger than one buffer: the framing code of the remote kind sends and receives it in pieces
    out.append({'kind': 'R', 'target': 't_big', 'ending': 'landing'})
    out.append({'kind': 'PR', 'target': 'p_big', 'inputs': [1], 'close': True, 'ending': 'landing'})
    # a thread worker reporting through a real pipe (what a Pool hands it) instead of the in-process queue
    out.append({'kind': 'PT', 'target': 'p_echo', 'inputs': [1], 'close': True, 'pipe': 'supplied', 'ending': 'landing'})
    for kind in ('PT', 'PP', 'PR'):
        out.append({'kind': kind, 'target': 'p_echo', 'inputs': [1, 2], 'close': True, 'ending': 'landing'})
        out.append({'kind': kind, 'target': 'p_poison', 'inputs': [1, 99], 'close': True, 'ending': 'landing'})
    return out


def actions_for(quick):
    def f(s):
        if s['kind'] in ('T', 'PT'):
            return ['terminate']
        # interrupt: KeyboardInterrupt raised at the landing point, what SIGINT (Ctrl-C reaches the whole process group) does to the
        # main thread of a child: a BaseException ending the work from any line
        return ['terminate', 'sigkill', 'interrupt'] if quick else ['terminate', 'sigkill', 'sigterm', 'interrupt']
    return f


def expected(case):
    """-> (list of acceptable (has_error, result, error), strict?)"""
    t = case['target']
    ev = (case.get('events') or [None])[0]
    kind = case['kind']
    acc = []
    if t in ('p_echo', 'p_big'):
        own = [(False, n, None) for n in range(len(case.get('inputs', [])) + 1)]
    elif t == 'p_poison':
        own = [(True, None, {'exc': 'ValueError', 'args': ['poison', 99]})]
    elif t == 'p_sysexit':
        # a BaseException: the exception itself or nothing
        own = [(True, None, {'exc': 'SystemExit', 'args': [3]}), (True, None, None)]
    else:
        shape, val = NATURAL[t]
        if shape == 'A':
            own = [(False, val, None)]
        elif shape == 'B':
            own = [(True, None, val)]
        elif shape == 'B?':
            # a BaseException / an exception that cannot be rebuilt: the exception itself or nothing
            own = [(True, None, val), (True, None, None)]
            if t == 't_unrebuildable_exc':
                own.append((True, None, {'exc': 'NeedsTwo', 'args': ['1-2']}))
        else:
            own = [(True, None, None), (False, 'obj:BadResult', None)]
            if kind == 'T':
                own = [(False, 'obj:BadResult', None)]
    if case.get('kill_after'):
        # killed while sending: nothing reportable (or, if the message got through before the signal, the value itself)
        return [(True, None, None), (False, 'bytes[%d]' % case['targs']['size'], None)]
    if ev is None:
        if t in ('p_echo', 'p_big'):
            own = [(False, len(case.get('inputs', [])), None)]
        if case.get('observe') == 'terminate':
            # death is observed through terminate(), which may itself be what ends a worker that is still busy
            own = list(own) + [(True, None, WTE), (True, None, None)]
        return own
    # an asynchronous event was involved: the ending's own outcome or WorkerTerminatedError; "nothing could be reported" only
    # when the child was killed (a graceful request lets the child report)
    acc = list(own) + [(True, None, WTE)]
    if any(e['action'] in ('sigkill', 'sigterm') for e in (case.get('events') or [])) or len(case.get('events') or []) > 1:
        acc.append((True, None, None))
    if any(e['action'] == 'interrupt' for e in (case.get('events') or [])):
        # the ending's own outcome, the BaseException itself, or nothing reportable - never a WorkerTerminatedError nobody asked for
        acc = list(own) + [(True, None, {'exc': 'KeyboardInterrupt', 'args': []}), (True, None, None)]
    if t == 'p_poison':
        acc += [(True, None, {'exc': 'ValueError', 'args': ['poison', 99]})]
    return acc


def judge(case, obs):
    if obs.get('driver_hang') or obs.get('driver_error'):
        return ('harness', obs.get('driver_hang') or obs.get('driver_error'))
    if obs.get('ctor') != 'ok':
        ev0 = (case.get('events') or [None])[0]
        if ev0 and ev0['action'] in ('sigkill', 'sigterm') and str(obs.get('ctor')).startswith('RAISES:'):
            # the child was killed while the parent's constructor was still waiting for the hand-over of its identity (the server
            # saw the death first): a constructor which raises is a correct answer (C20), there is no worker to judge
            return ('killed-before-the-constructor-returned', None)
        return ('constructor-' + str(obs.get('ctor')), None)
    if obs.get('not_reached'):
        return ('beyond-end', None)
    d = obs.get('death')
    tr = [x for x in (obs.get('terminate_ret') or []) if isinstance(x, str) and x.startswith('RAISES:')]
    if (isinstance(d, str) and d.startswith('RAISES:')) or tr:
        # the very call through which death is observed (wait / terminate / is_alive) raises: "never raise, however it died"
        return ('observing-death-' + (d if isinstance(d, str) and d.startswith('RAISES:') else tr[0]), None)
    if d is not True:
        return ('not-dead', str(d))      # the property speaks about workers observed dead; C02/C04 judge this
    rounds = obs.get('rounds') or []
    if len(rounds) != 4:
        return ('harness', 'rounds missing')
    for r in rounds:
        for name, v in zip(('is_alive', 'has_error', 'result', 'error'), r):
            if isinstance(v, str) and (v.startswith('RAISES:') or v == 'HANG'):
                return ('accessor-%s-%s' % (name, v), None)
    if any(r != rounds[0] for r in rounds[1:]):
        return ('unstable', None)
    alive, he, res, err = rounds[0]
    if alive is not False:
        return ('is_alive-true-after-death', None)
    if he not in (True, False):
        return ('has_error=None', None)
    if he is False and err is not None:
        return ('shape:' + describe((he, res, err)), None)
    if he is True and res is not None:
        return ('shape:' + describe((he, res, err)), None)
    if (he, res, err) not in expected(case):
        return ('wrong-outcome:' + describe((he, res, err)), None)
    return None


def judge_slow(case, obs):
    t = {op.get('tag'): st for op, st in zip(case['script'], obs['steps']) if op.get('tag')}
    he, r, e = t['has_error'].get('ret'), t['result'].get('ret'), t['error'].get('ret')
    exp = case.get('expect') or ('error' if case['target'] == 'raise_exc' else 'result')
    bad = None
    if t['dead'].get('ret') is not True:
        bad = 'death-not-observed'
    elif exp == 'result' and not (he is False and r is not None and e is None):
        bad = 'wrong-outcome:has_error=%r,result=%s,error=%s' % (he, 'None' if r is None else 'value', 'None' if e is None else 'set')
    elif exp == 'error' and not (he is True and r is None and e is not None):
        bad = 'wrong-outcome:has_error=%r,result=%s,error=%s' % (he, 'None' if r is None else 'value', 'None' if e is None else 'set')
    elif t['has_error2'].get('ret') is not he:
        bad = 'outcome-not-stable'
    return t, bad


def slow_consumer_part(ctx):
    """Natural endings of remote workers whose parent drains the data connection slowly: the child process is long gone (and
    its socket closed) while most of the final messages are still in flight; the outcome must be the one of the ending."""
    cases = []
    for kind in ('R',):
        for target, args, exp in (('ret_value', ['b1m'], 'result'), ('ret_value', ['b208k1'], 'result'), ('raise_exc', ['ve2'], 'error')):
            for obsv in ('wait', 'poll'):
                sc = [{'op': 'create', 'var': 'w', 'kind': kind, 'target': target, 'args': args, 'slow_reader': {'chunk': 16384, 'sleep': 0.01}},
                      ({'op': 'call', 'var': 'w', 'method': 'wait', 'args': [30], 'timeout': 40, 'tag': 'dead', 'stop_on_hang': False} if obsv == 'wait'
                       else {'op': 'poll_dead', 'var': 'w', 'timeout': 30, 'tag': 'dead'}),
                      {'op': 'get', 'var': 'w', 'attr': 'has_error', 'tag': 'has_error'},
                      {'op': 'get', 'var': 'w', 'attr': 'result', 'tag': 'result'},
                      {'op': 'get', 'var': 'w', 'attr': 'error', 'tag': 'error'},
                      {'op': 'get', 'var': 'w', 'attr': 'has_error', 'tag': 'has_error2'}]
                cases.append({'script': sc, 'kind': kind, 'target': target, 'args': args, 'observe': obsv, 'expect': exp})
    # the result takes the parent a while to recreate; the caller first waits with timeouts which are too short (that already
    # tells it that the remote side is gone), then polls is_alive(): "dead" must come with the outcome
    for v in ('slowobj',):
        sc = [{'op': 'create', 'var': 'w', 'kind': 'R', 'target': 'ret_value', 'args': [v]},
              {'op': 'sleep', 's': 0.15},
              {'op': 'call', 'var': 'w', 'method': 'wait', 'args': [0.05], 'timeout': 20, 'tag': 'short-wait-1'},
              {'op': 'call', 'var': 'w', 'method': 'wait', 'args': [0.05], 'timeout': 20, 'tag': 'short-wait-2'},
              {'op': 'poll_dead', 'var': 'w', 'timeout': 30, 'tag': 'dead'},
              {'op': 'get', 'var': 'w', 'attr': 'has_error', 'tag': 'has_error'},
              {'op': 'get', 'var': 'w', 'attr': 'result', 'tag': 'result'},
              {'op': 'get', 'var': 'w', 'attr': 'error', 'tag': 'error'},
              {'op': 'sleep', 's': 0.6},
              {'op': 'get', 'var': 'w', 'attr': 'has_error', 'tag': 'has_error2'}]
        cases.append({'script': sc, 'kind': 'R', 'target': 'ret_value', 'args': [v], 'observe': 'short-waits-then-poll', 'expect': 'result'})
    res = land.run_cases(cases, case_timeout=120)
    for case, obs in zip(cases, res):
        ctx.count()
        ctx.distinct(('slow-consumer', case['kind'], case['target'], tuple(case['args']), case['observe']))
        if obs.get('driver_hang') or obs.get('driver_error') or len(obs.get('steps', [])) < 6:
            ctx.extra.setdefault('harness_anomalies', []).append({'case': 'slow-consumer', 'why': str(obs.get('driver_hang') or obs.get('driver_error'))[:200]})
            continue
        t, bad = judge_slow(case, obs)
        ctx.outcome('slow-consumer:%s:%s' % (case['kind'], bad or 'ok'))
        if bad:
            ctx.violation('SEQ/%s/%s/natural-slow-consumer/%s/%s' % (case['kind'], case['target'], case['observe'], bad),
                          {k: case[k] for k in ('kind', 'target', 'args', 'observe', 'script')}, {k: str(v)[:120] for k, v in t.items()},
                          'the outcome of the ending: (False, value, None) / (True, None, error)', engine='SEQ')


def run(ctx):
    full = not ctx.quick
    ctx.rule = ('(worker class, ending, landing point k, observation way); landing alphabet as in C03 (every LINE event of the child working '
                'thread along the base path; quick: callee frames collapsed to first/last line); endings: natural x 11 targets, graceful '
                'terminate at k, SIGKILL at k (thorough SIGTERM); distinct = (class, target, action, k, observe)')
    ctx.assumptions = ['error None is accepted whenever a kill/terminate/untransferable value is involved, as the statement allows',
                       'a non-Exception BaseException raised by the target may be reported as error None']
    nat = natural_cases(ctx.quick)
    res_nat = land.run_cases(nat, case_timeout=90)
    scs = landing_scenarios(ctx.quick)
    bases, runs = land.sweep(scs, actions_for(ctx.quick), full=full)
    # the other landing alphabet: right after each call made by the run-loop functions has returned (every point: the paths are short)
    post_scs = [dict(s_, post_call=True) for s_ in scs]
    pbases, pruns = land.sweep(post_scs, lambda s_: ['terminate'] if s_['kind'] in ('T', 'PT') else ['terminate', 'interrupt'], full=True)
    for b_, s_ in zip(pbases, post_scs):
        if not b_.get('events_total'):
            ctx.selftest_fail('post-call base path of %s/%s produced no landing point' % (s_['kind'], s_['target']))
    ctx.extra['post_call_landing_runs'] = len(pruns)
    runs = runs + pruns
    # two requests per run for thread kinds (the second one can land inside the handling of the first)
    pair_scs = [{'kind': 'T', 'target': 't_loop', 'ending': 'landing-pair'}, {'kind': 'T', 'target': 't_raise', 'ending': 'landing-pair'}]
    if not ctx.quick:
        pair_scs += [{'kind': 'PT', 'target': 'p_echo', 'inputs': [1], 'close': True, 'ending': 'landing-pair'},
                     {'kind': 'PT', 'target': 'p_poison', 'inputs': [99], 'close': True, 'ending': 'landing-pair'}]
    _, _, pair_runs = land.sweep_pairs(pair_scs, full=True)
    ctx.extra['landing_pair_runs'] = len(pair_runs)
    harness = 0
    for obs in res_nat + runs + pair_runs:
        case = obs['case']
        ev = (case.get('events') or [None])[0]
        site = ((obs.get('landed') or [{}])[0].get('site')) or case.get('_site')      # where it really landed in this run
        ctx.count()
        ctx.distinct((case['kind'], case['target'], case.get('observe'), case.get('ending'), repr(case.get('kill_after')), bool(case.get('post_call')), case.get('pipe'), tuple((e['action'], e['k']) for e in (case.get('events') or []))))
        v = judge(case, obs)
        ctx.outcome('%s:%s' % (case['kind'], v[0] if v else 'ok'))
        if v is None:
            continue
        if v[0] == 'beyond-end':
            ctx.extra['landing_beyond_end_of_path'] = ctx.extra.get('landing_beyond_end_of_path', 0) + 1
            continue
        if v[0] == 'killed-before-the-constructor-returned':
            ctx.extra[v[0]] = ctx.extra.get(v[0], 0) + 1
            continue
        if v[0] == 'not-dead':
            ctx.extra.setdefault('death_not_observed_not_judged', []).append({'kind': case['kind'], 'target': case['target'], 'observe': case.get('observe'), 'got': v[1]})
            continue
        if v[0] == 'harness':
            harness += 1
            ctx.extra.setdefault('harness_anomalies', []).append({'case': {k: case.get(k) for k in ('kind', 'target', 'events')}, 'why': v[1]})
            continue
        where = ('%s@%s' % (ev['action'], land.site_sig(site, REPO))) if ev else '%s/%s' % (case.get('ending', 'natural'), case.get('observe'))
        if len(case.get('events') or []) == 2:
            l2 = (obs.get('landed') or [{}, {}])
            s2 = (l2[1].get('site') if len(l2) > 1 else None) or case.get('_site2')
            where = 'terminate@%s+terminate@%s' % (land.site_sig(site, REPO), land.site_sig(s2, REPO) if s2 else 'not-reached')
        sig = 'LAND/%s/%s/%s/%s' % (case['kind'], case['target'], where, v[0])
        ctx.violation(sig, {k: case.get(k) for k in ('kind', 'target', 'inputs', 'close', 'events', 'observe', '_site', 'post_call', 'pipe')},
                      {'death': obs.get('death'), 'rounds': obs.get('rounds'), 'terminate_ret': obs.get('terminate_ret')},
                      'one definite, stable outcome of the expected shape', engine='LAND')
    slow_consumer_part(ctx)
    ctx.sample({'natural_endings': len(nat), 'example': nat[3]})
    for b, s in list(zip(bases, scs))[:3]:
        ctx.sample({'scenario': {k: s[k] for k in ('kind', 'target')}, 'landing_points_on_base_path': b.get('events_total')})
    if harness > max(3, (len(runs) + len(nat)) // 50):
        ctx.selftest_fail('%d harness anomalies' % harness)
    ctx.extra['landing_runs'] = len(runs)
    ctx.extra['natural_runs'] = len(nat)


def replay(ctx, rec):
    c = rec['case']
    if 'script' in c:
        obs = land.run_cases([{'script': c['script']}], case_timeout=120)[0]
        ctx.count()
        t, bad = judge_slow(c, obs)
        print('replayed:', {k: str(v)[:100] for k, v in t.items()}, 'verdict:', bad)
        if bad:
            ctx.violation(rec['signature'], c, {k: str(v)[:120] for k, v in t.items()}, rec.get('expected'), engine='SEQ')
        return
    case = {k: v for k, v in c.items() if v is not None and k != '_site'}
    obs = land.run_cases([case], case_timeout=90)[0]
    ctx.count()
    v = judge(case, obs)
    print('replayed:', {k: obs.get(k) for k in ('death', 'rounds', 'terminate_ret', 'landed', 'stage')})
    print('verdict:', v)
    if v and v[0] not in ('harness', 'beyond-end', 'not-dead', 'killed-before-the-constructor-returned'):
        ctx.violation(rec['signature'], c, {'rounds': obs.get('rounds')}, rec.get('expected'), engine='LAND')
