"""SCHED: preemption-bounded exhaustive exploration of thread interleavings on the real code (CHESS style, stateless).

Controlled threads run one at a time; a thread hands the baton back to the scheduler at every LINE event (PEP 669
sys.monitoring) in the files under test and at every operation of a cooperative lock. The scheduler enumerates, depth
first, every schedule whose number of preemptions (switching away from a thread that could have continued) is within
the bound; every execution runs to completion.
"""
import os
import sys
import threading

TOOL = 4


class Deadlock(Exception):
    pass


class Divergence(Exception):
    pass


class CoopLock:
    """Drop-in for threading.Lock for code run under the scheduler: waiting is visible (the thread is disabled)."""

    def __init__(self, sched):
        self.sched = sched
        self.owner = None

    def acquire(self, blocking=True, timeout=-1):
        s = self.sched
        me = s.me()
        if me is None:              # uncontrolled thread (should not happen in harness bodies)
            while self.owner is not None:
                pass
            self.owner = 'free'
            return True
        s.yield_point(me, ('lock-acquire',))
        while self.owner is not None:
            s.block(me, self)
        self.owner = me
        return True

    def release(self):
        s = self.sched
        self.owner = None
        s.unblock(self)
        me = s.me()
        if me is not None:
            s.yield_point(me, ('lock-release',))

    def __enter__(self):
        self.acquire()
        return self

    def __exit__(self, *a):
        self.release()

    def locked(self):
        return self.owner is not None


class Execution:
    def __init__(self, sched, bodies, prefix):
        self.sched = sched
        self.n = len(bodies)
        self.bodies = bodies
        self.prefix = list(prefix)
        self.pos = 0
        self.trace = []            # per choice point: (n_options, chosen, preemption_cost_of_each_option)
        self.points = 0
        self.sems = [threading.Semaphore(0) for _ in bodies]
        self.ctrl = threading.Semaphore(0)
        self.done = [False] * self.n
        self.blocked = [None] * self.n
        self.results = [None] * self.n
        self.errors = [None] * self.n
        self.idents = {}
        self.running = None
        self.switches = []
        self.abort = False


class Sched:
    def __init__(self, files, max_points=20000):
        self.files = tuple(files)
        self.ex = None
        self.max_points = max_points
        self._installed = False

    # ---- monitoring ------------------------------------------------------------------------------------------
    def install(self):
        if self._installed:
            return
        mon = sys.monitoring
        try:
            mon.use_tool_id(TOOL, 'pwv-sched')
        except ValueError:
            mon.free_tool_id(TOOL)
            mon.use_tool_id(TOOL, 'pwv-sched')
        mon.register_callback(TOOL, mon.events.LINE, self._on_line)
        mon.set_events(TOOL, mon.events.LINE)
        self._installed = True

    def uninstall(self):
        if not self._installed:
            return
        mon = sys.monitoring
        mon.set_events(TOOL, 0)
        mon.register_callback(TOOL, mon.events.LINE, None)
        mon.free_tool_id(TOOL)
        self._installed = False

    def _on_line(self, code, line):
        fn = code.co_filename
        if not fn.endswith(self.files):
            return sys.monitoring.DISABLE
        ex = self.ex
        if ex is None:
            return None
        me = ex.idents.get(threading.get_ident())
        if me is None or ex.done[me]:
            return None
        self.yield_point(me, (os.path.basename(fn), line))
        return None

    # ---- called from controlled threads ----------------------------------------------------------------------
    def me(self):
        ex = self.ex
        if ex is None:
            return None
        return ex.idents.get(threading.get_ident())

    def yield_point(self, me, label):
        ex = self.ex
        if ex.abort:
            return
        ex.points += 1
        if ex.points > self.max_points:
            ex.abort = True
            ex.ctrl.release()
            return
        ex.last_label = label
        ex.ctrl.release()            # give control to the scheduler
        ex.sems[me].acquire()        # wait until chosen again

    def block(self, me, on):
        ex = self.ex
        ex.blocked[me] = on
        ex.ctrl.release()
        ex.sems[me].acquire()

    def unblock(self, on):
        ex = self.ex
        if ex is None:
            return
        for i in range(ex.n):
            if ex.blocked[i] is on:
                ex.blocked[i] = None

    # ---- one execution -----------------------------------------------------------------------------------------
    def run(self, bodies, prefix=(), bound=None):
        """bodies: list of callables. Returns the Execution (trace, results, errors, switches)."""
        self.install()
        ex = Execution(self, bodies, prefix)
        self.ex = ex

        def main(i):
            ex.idents[threading.get_ident()] = i
            ex.sems[i].acquire()
            try:
                ex.results[i] = bodies[i]()
            except BaseException as e:  # noqa
                ex.errors[i] = e
            ex.done[i] = True
            ex.ctrl.release()
        threads = [threading.Thread(target=main, args=(i,), daemon=True) for i in range(ex.n)]
        for t in threads:
            t.start()
        # wait until every thread has registered its ident
        while len(ex.idents) < ex.n:
            pass
        preemptions = 0
        try:
            while True:
                if ex.abort:
                    raise Divergence('more than %d scheduling points in one execution' % self.max_points)
                enabled = [i for i in range(ex.n) if not ex.done[i] and ex.blocked[i] is None]
                if not enabled:
                    if all(ex.done):
                        break
                    raise Deadlock('no enabled thread: %s' % [(i, ex.done[i], ex.blocked[i] is not None) for i in range(ex.n)])
                cur = ex.running
                cur_enabled = cur is not None and cur in enabled
                opts = ([cur] if cur_enabled else []) + [i for i in enabled if i != cur or not cur_enabled]
                costs = [0 if (not cur_enabled or o == cur) else 1 for o in opts]
                if len(opts) > 1:
                    if ex.pos < len(ex.prefix):
                        c = ex.prefix[ex.pos]
                        if c >= len(opts):
                            raise Divergence('replay divergence at choice %d: %d of %d' % (ex.pos, c, len(opts)))
                    else:
                        c = 0
                    ex.pos += 1
                    ex.trace.append((len(opts), c, costs, preemptions))
                else:
                    c = 0
                preemptions += costs[c]
                nxt = opts[c]
                if nxt != cur:
                    ex.switches.append((ex.points, cur, nxt))
                ex.running = nxt
                ex.sems[nxt].release()
                ex.ctrl.acquire()
        finally:
            self.ex = None
            if not all(ex.done):
                # release whatever is still parked so the daemon threads can end
                ex.abort = True
                for i in range(ex.n):
                    ex.sems[i].release()
        for t in threads:
            t.join(5)
        ex.preemptions = preemptions
        return ex

    # ---- exploration -------------------------------------------------------------------------------------------
    def explore(self, make_bodies, bound, on_exec, max_execs=None):
        """make_bodies() -> (bodies, finish) builds fresh state for one execution; finish(ex) -> observation.
        on_exec(ex, obs, choices). Returns stats."""
        stack = [[]]
        n = 0
        capped = False
        while stack:
            prefix = stack.pop()
            bodies, finish = make_bodies()
            ex = self.run(bodies, prefix)
            obs = finish(ex)
            n += 1
            choices = [c for (_, c, _, _) in ex.trace]
            on_exec(ex, obs, choices)
            for i in range(len(ex.trace) - 1, len(prefix) - 1, -1):
                nopts, c, costs, pre = ex.trace[i]
                for alt in range(nopts - 1, c, -1):
                    if pre + costs[alt] <= bound:
                        stack.append(choices[:i] + [alt])
            if max_execs and n >= max_execs:
                capped = True
                break
        return {'executions': n, 'capped': capped}
