"""Worker subclasses that assign user_state from inside the child (importable in spawn children)."""
import time

from pyworkers.thread import ThreadWorker
from pyworkers.process import ProcessWorker
from pyworkers.remote import RemoteWorker
from pyworkers.persistent_thread import PersistentThreadWorker
from pyworkers.persistent_process import PersistentProcessWorker
from pyworkers.persistent_remote import PersistentRemoteWorker


class StateMixin:
    def run(self, *args, marker=None, m=2, ending='return', big=0, **kwargs):
        seen = self.user_state
        for j in range(1, m + 1):
            self.user_state = ['assigned', j]
        if big:
            self.user_state = ['big', 's' * big]
        if ending == 'linger':
            # the work is over (and gets reported) but the process stays: a thread left behind keeps it
            import threading
            threading.Thread(target=time.sleep, args=(3600,)).start()
            return ['saw', seen]
        if ending == 'raise-unpicklable':
            import threading
            raise ValueError('carries a lock', threading.Lock())
        if ending == 'return-unpicklable':
            import threading
            return threading.Lock()
        if kwargs.get('last') == 'none':
            self.user_state = None          # the last assignment resets the state
        elif kwargs.get('last') == 'falsy':
            self.user_state = 0
        if ending == 'raise':
            raise ValueError('a', 1)
        if ending == 'spin':
            while True:
                time.sleep(0.001)
        return ['saw', seen]


class State_T(StateMixin, ThreadWorker):
    pass


class State_P(StateMixin, ProcessWorker):
    pass


class State_R(StateMixin, RemoteWorker):
    pass


class State_PT(StateMixin, PersistentThreadWorker):
    pass


class State_PP(StateMixin, PersistentProcessWorker):
    pass


class State_PR(StateMixin, PersistentRemoteWorker):
    pass
