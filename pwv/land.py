"""LAND: landing-point / crash-point enumeration on the real child.

Runner side: shards cases over long-lived driver subprocesses (python -m pwv.land --driver), each of which creates
real workers, lets the child-side tracer (inject/pwv_inject.py) pin *where* the asynchronous event lands, performs the
real terminate()/wait()/accessor calls and reports an observation. A driver that hangs is killed and restarted.
"""
import os
import sys
import ast
import json
import time
import queue
import shutil
import signal
import tempfile
import threading
import subprocess

HOME = os.environ.get('PWV_HOME') or os.path.dirname(os.path.dirname(os.path.abspath(__file__)))

KINDS = {
    'T': ('pyworkers.thread', 'ThreadWorker'), 'P': ('pyworkers.process', 'ProcessWorker'), 'R': ('pyworkers.remote', 'RemoteWorker'),
    'PT': ('pyworkers.persistent_thread', 'PersistentThreadWorker'), 'PP': ('pyworkers.persistent_process', 'PersistentProcessWorker'),
    'PR': ('pyworkers.persistent_remote', 'PersistentRemoteWorker'),
}
ARM = {
    'T': {'file': 'thread.py', 'func': '_run', 'line_text': 'self._startup_sync.set()'},
    'P': {'file': 'process.py', 'func': '_run', 'line_text': 'self._comms.child_end.put((self._pid, self._tid, self._ident))'},
    'R': {'file': 'remote.py', 'func': '_run_backend', 'line_text': 'self._comms.child_end.send((self._host, self._pid, self._tid, self._ident))'},
}
ARM['PT'], ARM['PP'], ARM['PR'] = ARM['T'], ARM['P'], ARM['R']
FILES = ['pyworkers/', 'pwv/targets.py', 'pwv/statew.py']


# ---------------------------------------------------------------------------------------------------------------------
# AST regions: file:function:region signatures that survive property-preserving edits
_ast_cache = {}


def region_of(path, line):
    """'func:region' where region is body / try#n.body / try#n.handler#m / try#n.finally / ... of the innermost function."""
    try:
        if path not in _ast_cache:
            with open(path) as f:
                _ast_cache[path] = ast.parse(f.read())
        tree = _ast_cache[path]
    except (OSError, SyntaxError):
        return '?'
    best = None
    for node in ast.walk(tree):
        if isinstance(node, (ast.FunctionDef, ast.AsyncFunctionDef)):
            if node.lineno <= line <= (node.end_lineno or node.lineno):
                if best is None or node.lineno >= best.lineno:
                    best = node
    if best is None:
        return 'module'
    parts = []

    def descend(stmts, counters):
        for s in stmts:
            if not (s.lineno <= line <= (s.end_lineno or s.lineno)):
                if isinstance(s, ast.Try):
                    counters['try'] += 1
                continue
            if isinstance(s, ast.Try):
                counters['try'] += 1
                n = counters['try']
                def inside(block):
                    return any(b.lineno <= line <= (b.end_lineno or b.lineno) for b in block)
                if inside(s.body):
                    parts.append('try#%d.body' % n)
                    descend(s.body, {'try': 0})
                elif inside(s.finalbody):
                    parts.append('try#%d.finally' % n)
                    descend(s.finalbody, {'try': 0})
                elif inside(s.orelse):
                    parts.append('try#%d.else' % n)
                    descend(s.orelse, {'try': 0})
                else:
                    for m, h in enumerate(s.handlers):
                        if h.lineno <= line <= (h.end_lineno or h.lineno):
                            parts.append('try#%d.handler#%d' % (n, m + 1))
                            descend(h.body, {'try': 0})
                            break
                    else:
                        parts.append('try#%d' % n)
                return
            for fld in ('body', 'orelse'):
                sub = getattr(s, fld, None)
                if isinstance(sub, list) and sub and isinstance(sub[0], ast.stmt):
                    if any(b.lineno <= line <= (b.end_lineno or b.lineno) for b in sub):
                        descend(sub, counters)
                        return
            return
    descend(best.body, {'try': 0})
    return '%s:%s' % (best.name, '.'.join(parts) or 'body')


def site_sig(site, repo):
    """(basename, line, func[, anchor basename, line, func]) -> 'file:func:region[>call]' of the run-loop frame."""
    if len(site) >= 6:
        return site_sig(site[3:6], repo) + '>call'
    base, line, func = site[:3]
    post = '>after-call' if '+ret' in str(func) else ''
    for d in (os.path.join(repo, 'pyworkers'), os.path.join(HOME, 'pwv')):
        p = os.path.join(d, base)
        if os.path.exists(p):
            return '%s:%s%s' % (base, region_of(p, line), post)
    return '%s:%s%s' % (base, func, post)


# ---------------------------------------------------------------------------------------------------------------------
# Driver side
def _guard(f):
    try:
        return f()
    except BaseException as e:  # noqa
        return 'RAISES:%s' % type(e).__name__


def _rep(v):
    if type(v).__name__ == 'Point' and hasattr(v, 'x'):
        return {'Point': [_rep(v.x), _rep(v.y)]}
    if isinstance(v, (set, frozenset)):
        return {'set': sorted(_rep(x) for x in v)}
    if isinstance(v, BaseException):
        return {'exc': type(v).__name__, 'args': _rep(list(v.args))}
    if isinstance(v, bytes):
        return 'bytes[%d]' % len(v)
    if isinstance(v, (list, tuple)):
        return [_rep(x) for x in v]
    if isinstance(v, dict):
        return {str(k): _rep(x) for k, x in v.items()}
    if v is None or isinstance(v, (bool, int, float, str)):
        return v
    return 'obj:%s' % type(v).__name__


def with_timeout(f, timeout, default='HANG'):
    """Run f() in a helper thread; a call that does not return is a verdict, not a hang of the driver."""
    box = []

    def run():
        try:
            box.append(('ok', f()))
        except BaseException as e:  # noqa
            box.append(('exc', e))
    t = threading.Thread(target=run, daemon=True)
    t.start()
    t.join(timeout)
    if not box:
        return default
    if box[0][0] == 'exc':
        return 'RAISES:%s' % type(box[0][1]).__name__
    return box[0][1]


class Driver:
    def __init__(self):
        self.base = tempfile.mkdtemp(prefix='pwv_land_')
        self.spec_path = os.path.join(self.base, 'spec.json')
        with open(self.spec_path, 'w') as f:
            json.dump({'off': True}, f)
        self.server = None
        self.ncase = 0
        sys.path.insert(0, os.path.join(HOME, 'inject'))

    def get_server(self):
        if self.server is None or not self.server.is_alive():
            from pyworkers.remote_server import spawn_server
            os.environ['PWV_SPEC'] = self.spec_path
            self.server = spawn_server(('127.0.0.1', 0), **getattr(self, 'server_kwargs', {}))
        return self.server

    def close(self):
        if self.server is not None:
            try:
                self.server.terminate(timeout=1, force=True)
            except Exception:  # noqa
                pass
        shutil.rmtree(self.base, ignore_errors=True)

    def run_case(self, case):
        if 'script' in case:
            from .seqdrv import Script
            self.ncase += 1
            return Script(self, case).run()
        import importlib
        import pwv_inject
        from pwv import targets
        self.ncase += 1
        kind = case['kind']
        rd = os.path.join(self.base, 'c%d' % self.ncase)
        os.makedirs(rd)
        marker = os.path.join(rd, 'marker')
        mod, clsname = KINDS[kind]
        cls = getattr(importlib.import_module(mod), clsname)
        wcls = case.get('worker_cls')
        if wcls:
            from pwv import statew
            cls = getattr(statew, wcls + '_' + kind)
            clsname = cls.__name__
        spec = {'run_dir': rd, 'arm': dict(ARM[kind], cls=clsname), 'files': FILES, 'events': case.get('events', []),
                'inprocess': kind in ('T', 'PT'), 'post_call': bool(case.get('post_call'))}
        if case.get('parent_arm'):
            # the landing alphabet is the parent's own call (a preemption point enumeration), not the child's run loop
            spec['arm'] = dict(case['parent_arm'], cls=clsname)
        obs = {'case': case, 'stage': 'start'}
        persistent = kind.startswith('P') and kind != 'P'
        kw = {}
        if kind in ('R', 'PR'):
            kw['host'] = self.get_server().addr
        if kind in ('T', 'PT'):
            pwv_inject.configure(spec)
        else:
            with open(self.spec_path + '.tmp', 'w') as f:
                json.dump(spec, f)
            os.rename(self.spec_path + '.tmp', self.spec_path)
            os.environ['PWV_SPEC'] = self.spec_path
        target = getattr(targets, case['target'])
        pipe = None
        if persistent and case.get('pipe') == 'supplied':
            from pyworkers.utils import Pipe
            pipe = Pipe()
            kw['results_pipe'] = pipe
        if 'init_state' in case:
            kw['init_state'] = case['init_state']
        fd = case.get('frontend_delay')
        undo = []
        if fd:
            import pyworkers.remote as _r
            import pyworkers.persistent_remote as _pr
            real_recv = _r.recv_msg

            def slow_recv(sock, *a, comment=None, **k):
                if comment and comment.startswith(fd['comment_prefix']):
                    time.sleep(fd['seconds'])
                return real_recv(sock, *a, comment=comment, **k)
            for m_ in (_r, _pr):
                undo.append((m_, m_.recv_msg))
                m_.recv_msg = slow_recv
        obs_undo = undo
        t_ctor = time.time()
        try:
            if persistent:
                w = cls(target, kwargs=dict(case.get('targs', {}), marker=marker), **kw)
            else:
                targs = case.get('targs', {})
                w = cls(target, kwargs=dict(targs, marker=marker), **kw)
        except BaseException as e:  # noqa
            obs['ctor'] = 'RAISES:%s' % type(e).__name__
            for m_, f_ in obs_undo:
                m_.recv_msg = f_
            pwv_inject.configure(None) if kind in ('T', 'PT') else None
            return obs
        obs['ctor'] = 'ok'
        obs['ctor_s'] = round(time.time() - t_ctor, 3)
        obs['stage'] = 'constructed'
        try:
            self._drive(case, kind, w, persistent, pipe, rd, obs, marker)
        finally:
            for m_, f_ in obs_undo:
                m_.recv_msg = f_
            if kind in ('T', 'PT'):
                st = pwv_inject.state()
                if st:
                    obs['events_total'] = st['count']
                    obs['sites'] = st['sites']
                    obs['landed'] = st['landed']
                pwv_inject.configure(None)
            else:
                self._read_child_report(rd, obs)
            # never leave a child behind
            try:
                if kind in ('P', 'PP', 'R', 'PR'):
                    pid = w.pid
                    alive = w._child.is_alive() if kind in ('P', 'PP') else None
                    if kind in ('P', 'PP') and alive:
                        os.kill(pid, signal.SIGKILL)
                        obs['leftover_child'] = True
                        w._child.join(2)
                    elif kind in ('R', 'PR'):
                        try:
                            os.kill(pid, 0)
                            time.sleep(0.05)
                            os.kill(pid, signal.SIGKILL)
                            obs['leftover_child'] = True
                        except (ProcessLookupError, PermissionError):
                            pass
            except Exception:  # noqa
                pass
            shutil.rmtree(rd, ignore_errors=True)
        return obs

    def _read_child_report(self, rd, obs):
        sites = []
        landed = []
        try:
            for fn in sorted(os.listdir(rd)):
                p = os.path.join(rd, fn)
                if fn.startswith('events.'):
                    with open(p) as f:
                        for ln in f:
                            a = ln.split()
                            if len(a) == 4:
                                sites.append([a[1], int(a[2]), a[3]])
                            elif len(a) == 7:
                                sites.append([a[1], int(a[2]), a[3], a[4], int(a[5]), a[6]])
                elif fn.startswith('landed.') or (fn.startswith('reached.') and not os.path.exists(os.path.join(rd, 'landed.' + fn.split('.')[1]))):
                    with open(p) as f:
                        landed.append(json.load(f))
        except (OSError, ValueError):
            pass
        obs['events_total'] = len(sites)
        obs['sites'] = sites
        obs['landed'] = landed

    def _wait_file(self, path, timeout, w=None):
        t0 = time.time()
        dead_since = None
        while not os.path.exists(path):
            now = time.time()
            if now - t0 > timeout:
                return False
            if w is not None:
                # the child ended before reaching the landing point (no side effects: the raw thread/process handle is asked)
                try:
                    if not w._child.is_alive():
                        if dead_since is None:
                            dead_since = now
                        elif now - dead_since > 0.2:
                            return os.path.exists(path)
                except Exception:  # noqa
                    pass
            time.sleep(0.0005)
        return True

    def _drive(self, case, kind, w, persistent, pipe, rd, obs, marker):
        events = case.get('events', [])
        T = case.get('timeout', 10)
        live = None
        if persistent and case.get('consume') == 'live':
            # a consumer that is already blocked on the stream while the worker is alive
            live = {'got': [], 'end': None}

            def consumer():
                try:
                    if kind == 'PR':
                        # the control connection of a remote worker is not meant to be used from two threads at once (is_alive()
                        # in next_result() versus terminate() in the main thread): consume the endpoint itself, like a multiplexer
                        ep = w.results_endpoint
                        while True:
                            m = ep.get()
                            if not m[1]:
                                break
                            live['got'].append(_rep(m[2]))
                    else:
                        for v in w.results_iter():
                            live['got'].append(_rep(v))
                    live['end'] = 'empty'
                except BaseException as e:  # noqa
                    live['end'] = 'RAISES:%s' % type(e).__name__
            live['thread'] = threading.Thread(target=consumer, daemon=True)
            live['thread'].start()
        if persistent:
            for x in case.get('inputs', []):
                try:
                    w.enqueue(*x) if isinstance(x, (list, tuple)) else w.enqueue(x)
                except BaseException as e:  # noqa
                    obs.setdefault('enqueue_errors', []).append(type(e).__name__)
            if case.get('close', True):
                _guard(w.close)
        # user_state while the child is (deterministically) alive, for C16
        nland = 0
        for ev in events:
            nland += 1
            if ev['action'] in ('terminate', 'pause'):
                ok = self._wait_file(os.path.join(rd, 'reached.%d' % nland), case.get('reach_timeout', 10), w)
                obs.setdefault('reached', []).append(ok)
                if not ok:
                    obs['not_reached'] = True
                    break
                if case.get('read_state_while_paused'):
                    obs['state_while_alive'] = _rep(_guard(lambda: w.user_state))
                    obs['alive_while_paused'] = _guard(w.is_alive)
                    obs['has_error_while_paused'] = _rep(_guard(lambda: w.has_error))
                    obs['state_setter'] = _guard(lambda: setattr(w, 'user_state', 'parent-was-here'))
                if ev['action'] == 'terminate':
                    t0 = time.time()
                    Tev = ev.get('timeout', T)
                    r = with_timeout(lambda: w.terminate(timeout=Tev, force=False), Tev * 2 + 5)
                    obs.setdefault('terminate_ret', []).append(r if isinstance(r, (bool, str)) else repr(r))
                    obs.setdefault('terminate_s', []).append(round(time.time() - t0, 3))
                else:
                    with open(os.path.join(rd, 'release.%d' % nland), 'w') as f:
                        f.write('go')
            elif ev['action'] in ('sigkill', 'sigterm', 'raise', 'interrupt'):
                pass
        obs['stage'] = 'events-done'
        if case.get('kill_after'):
            ka = case['kill_after']
            time.sleep(ka.get('delay', 0.4))
            try:
                os.kill(w.pid, getattr(signal, 'SIG' + ka.get('sig', 'KILL')))
                obs['killed'] = True
            except ProcessLookupError:
                obs['killed'] = False
        if case.get('forced_terminate'):
            time.sleep(case.get('forced_delay', 0.3))
            t0 = time.time()
            r = with_timeout(lambda: w.terminate(timeout=case.get('forced_timeout', 0.4), force=True), 30)
            obs.setdefault('terminate_ret', []).append(r if isinstance(r, (bool, str)) else repr(r))
            obs.setdefault('terminate_s', []).append(round(time.time() - t0, 3))
        if case.get('idle_terminate'):
            # the persistent child is blocked waiting for input: read the answers first, then terminate
            got = []
            for _ in case.get('inputs', []):
                got.append(_rep(with_timeout(lambda: w.next_result(timeout=5), 8)))
            obs['pre_results'] = got
            time.sleep(0.05)
            t0 = time.time()
            r = with_timeout(lambda: w.terminate(timeout=T, force=False), T * 2 + 5)
            obs.setdefault('terminate_ret', []).append(r if isinstance(r, (bool, str)) else repr(r))
            obs.setdefault('terminate_s', []).append(round(time.time() - t0, 3))
        if live is not None and (obs.get('terminate_ret') or [None])[-1] is True:
            # terminate() has reported the worker dead: the consumer which was already waiting must see the end of the stream
            # without any further call on the worker helping it along
            live['thread'].join(4)
            obs['live_consumer_released_by_terminate'] = not live['thread'].is_alive()
        # observe death
        how = case.get('observe', 'wait')
        t0 = time.time()
        if how == 'wait':
            d = with_timeout(lambda: w.wait(T), T + 5)
        elif how == 'terminate':
            d = with_timeout(lambda: w.terminate(timeout=T, force=False), T * 2 + 5)
        elif how == 'poll-wait':
            d = False
            while time.time() - t0 < T:
                a = _guard(lambda: w.wait(0.3))
                if a is True or isinstance(a, str):
                    d = a
                    break
        else:
            d = False
            while time.time() - t0 < T:
                a = _guard(w.is_alive)
                if a is False:
                    d = True
                    break
                if isinstance(a, str):
                    d = a
                    break
                time.sleep(0.002)
        obs['death'] = d if isinstance(d, (bool, str)) else repr(d)
        obs['death_s'] = round(time.time() - t0, 3)
        obs['stage'] = 'death-observed'
        rounds = []
        for _ in range(4):
            rounds.append([_rep(with_timeout(w.is_alive, 5)), _rep(with_timeout(lambda: w.has_error, 5)),
                           _rep(with_timeout(lambda: w.result, 5)), _rep(with_timeout(lambda: w.error, 5))])
        obs['rounds'] = rounds
        obs['user_state'] = _rep(with_timeout(lambda: w.user_state, 5))
        obs['marker'] = os.path.exists(marker)
        obs['stage'] = 'accessors-done'
        if persistent and live is not None:
            live['thread'].join(4)
            obs['results'] = list(live['got'])
            obs['stream_end'] = live['end'] if not live['thread'].is_alive() else 'hang'
            if obs['stream_end'] == 'empty':
                again = with_timeout(lambda: w.next_result(), 3)
                obs['after_end'] = again if isinstance(again, str) else 'value'
        elif persistent:
            # the result stream must be a prefix of the expected sequence and must end
            res = []
            end = None
            if pipe is None or case.get('consume') == 'api':
                for _ in range(len(case.get('inputs', [])) + 3):
                    r = with_timeout(lambda: w.next_result(), 3)
                    if r == 'RAISES:Empty':
                        end = 'empty'
                        break
                    if r == 'HANG':
                        end = 'hang'
                        break
                    if isinstance(r, str) and r.startswith('RAISES:'):
                        end = r
                        break
                    res.append(_rep(r))
                else:
                    end = 'too-many'
                if end == 'empty':
                    again = with_timeout(lambda: w.next_result(), 3)
                    obs['after_end'] = again if isinstance(again, str) else 'value'
            else:
                # raw endpoint, as the Pool consumes it: wait + recv until end marker or EOF
                import multiprocessing.connection as mpc
                ep = pipe.parent_end
                for _ in range(len(case.get('inputs', [])) + 4):
                    try:
                        ready = mpc.wait([ep], 2.0)
                    except (OSError, ValueError) as e:
                        end = 'wait-raises:%s' % type(e).__name__
                        break
                    if not ready:
                        end = 'hang'       # no writer is left, yet neither an end marker nor EOF arrives
                        break
                    try:
                        m = ep.recv()
                    except EOFError:
                        end = 'eof'
                        break
                    except BaseException as e:  # noqa
                        end = 'recv-raises:%s' % type(e).__name__
                        break
                    if not (isinstance(m, tuple) and len(m) == 4):
                        end = 'malformed'
                        res.append(_rep(m))
                        break
                    if m[1] is False:
                        end = 'marker'
                        obs['marker_counter'] = m[0]
                        break
                    res.append([m[0], _rep(m[2])])
                else:
                    end = 'too-many'
            obs['results'] = res
            obs['stream_end'] = end
        obs['stage'] = 'done'


def driver_main():
    import logging
    logging.disable(logging.CRITICAL)
    d = Driver()
    out = os.fdopen(os.dup(1), 'w')
    devnull = os.open(os.devnull, os.O_WRONLY)
    os.dup2(devnull, 1)
    os.dup2(devnull, 2)
    try:
        for line in sys.stdin:
            line = line.strip()
            if not line:
                continue
            job = json.loads(line)
            if job.get('quit'):
                break
            try:
                obs = d.run_case(job['case'])
            except BaseException as e:  # noqa
                import traceback
                obs = {'case': job['case'], 'driver_error': '%s: %s' % (type(e).__name__, e), 'tb': traceback.format_exc()[-800:]}
            out.write(json.dumps({'id': job['id'], 'obs': obs}) + '\n')
            out.flush()
    finally:
        d.close()
    os._exit(0)


# ---------------------------------------------------------------------------------------------------------------------
# Runner side
class DriverProc:
    def __init__(self, env):
        self.p = subprocess.Popen([sys.executable, '-m', 'pwv.land', '--driver'], stdin=subprocess.PIPE, stdout=subprocess.PIPE,
                                  stderr=subprocess.DEVNULL, env=env, start_new_session=True, text=True, bufsize=1)
        self.q = queue.Queue()
        self.t = threading.Thread(target=self._reader, daemon=True)
        self.t.start()

    def _reader(self):
        try:
            for line in self.p.stdout:
                self.q.put(line)
        except Exception:  # noqa
            pass
        self.q.put(None)

    def submit(self, jid, case):
        self.p.stdin.write(json.dumps({'id': jid, 'case': case}) + '\n')
        self.p.stdin.flush()

    def result(self, timeout):
        try:
            line = self.q.get(timeout=timeout)
        except queue.Empty:
            return 'timeout'
        if line is None:
            return 'dead'
        return json.loads(line)

    def kill(self):
        try:
            os.killpg(self.p.pid, signal.SIGKILL)
        except (ProcessLookupError, PermissionError):
            pass
        try:
            self.p.wait(5)
        except Exception:  # noqa
            pass

    def quit(self):
        try:
            self.p.stdin.write(json.dumps({'quit': True}) + '\n')
            self.p.stdin.flush()
            self.p.wait(10)
        except Exception:  # noqa
            pass
        self.kill()


def run_cases(cases, nproc=None, case_timeout=60, on_result=None):
    """Runs every case on a pool of drivers. Returns list of observations in case order."""
    nproc = nproc or min(14, os.cpu_count() or 4)
    nproc = max(1, min(nproc, len(cases)))
    env = dict(os.environ)
    env.pop('PWV_SPEC', None)
    env['PWV_RUN_ID'] = 'land-%d-%d' % (os.getpid(), int(time.time()))
    results = [None] * len(cases)
    lock = threading.Lock()
    nxt = [0]

    def worker():
        dp = DriverProc(env)
        try:
            while True:
                with lock:
                    i = nxt[0]
                    nxt[0] += 1
                if i >= len(cases):
                    break
                try:
                    dp.submit(i, cases[i])
                    r = dp.result(case_timeout)
                except (BrokenPipeError, OSError):
                    r = 'dead'
                if r in ('timeout', 'dead'):
                    results[i] = {'case': cases[i], 'driver_hang': r}
                    dp.kill()
                    dp = DriverProc(env)
                else:
                    results[i] = r['obs']
                if on_result:
                    on_result(i, results[i])
        finally:
            dp.quit()
    ths = [threading.Thread(target=worker) for _ in range(nproc)]
    for t in ths:
        t.start()
    for t in ths:
        t.join()
    return results


if __name__ == '__main__':
    if '--driver' in sys.argv:
        driver_main()


# ---------------------------------------------------------------------------------------------------------------------
# Sweeps: base path first (learn the landing alphabet), then one run per landing point
ANCHORED = ('_run', '_run_backend', 'do_work', 'run', '_init_child', '_cleanup', '_send_result', '_fetch_results')


FRAMING = ('recv_msg', '_recv_exactly', 'send_msg')      # message framing of the remote kinds: every point also in the quick tier


def is_anchored(site):
    return site[2].split('+')[0] in ANCHORED or site[0] in ('targets.py', 'statew.py')


def select_points(sites, full):
    """All points (full) or: every point of the anchored functions, of the message framing functions and of the harness target,
    plus the first and the last point of every contiguous run inside other callees (logging, pipe wrappers, pickling)."""
    n = len(sites)
    if full:
        return list(range(1, n + 1))
    if any('+ret' in s[2] for s in sites):
        # post-call alphabet: the points after which the next line lies in another try range
        return [i + 1 for i, s in enumerate(sites) if s[2].endswith('+ret!')]
    keep = []
    for i, s in enumerate(sites):
        if is_anchored(s) or s[2] in FRAMING:
            keep.append(i + 1)
        else:
            prev_a = i == 0 or is_anchored(sites[i - 1])
            next_a = i == n - 1 or is_anchored(sites[i + 1])
            if prev_a or next_a:
                keep.append(i + 1)
    return keep


def sweep_pairs(scenarios, full=True, nproc=None):
    """Two graceful requests per run (deviation bound 2, thread kinds): for every first landing k1 the path after it is recorded,
    then one run per second landing k2 > k1 on that path (this is how a request landing inside the handling of the previous one is
    reached)."""
    base_cases = [dict(s, events=[]) for s in scenarios]
    bases = run_cases(base_cases, nproc=nproc)
    firsts = []
    for s, b in zip(scenarios, bases):
        sites = b.get('sites') or []
        for k in select_points(sites, full):
            firsts.append(dict(s, events=[{'k': k, 'action': 'terminate'}], _site=sites[k - 1]))
    r1 = run_cases(firsts, nproc=nproc)
    cases = []
    for c, o in zip(firsts, r1):
        k1 = c['events'][0]['k']
        sites = o.get('sites') or []
        for k2 in range(k1 + 1, len(sites) + 1):
            cases.append(dict(c, events=[{'k': k1, 'action': 'terminate', 'timeout': 0.02}, {'k': k2, 'action': 'terminate'}],
                              _site=sites[k1 - 1], _site2=sites[k2 - 1]))
    runs = run_cases(cases, nproc=nproc)
    return bases, r1, runs


def sweep(scenarios, actions, full=False, nproc=None, progress=None):
    """scenarios: list of case dicts without 'events'. Returns (bases, runs) where runs = list of obs for every
    (scenario, k, action)."""
    base_cases = [dict(s, events=[]) for s in scenarios]
    bases = run_cases(base_cases, nproc=nproc)
    cases = []
    for s, b in zip(scenarios, bases):
        sites = b.get('sites') or []
        acts = actions(s) if callable(actions) else actions
        if s.get('base_only'):
            continue          # only the base run of this scenario is wanted
        for k in select_points(sites, full):
            for a in acts:
                cases.append(dict(s, events=[{'k': k, 'action': a}], _site=sites[k - 1], _base_events=len(sites)))
    runs = run_cases(cases, nproc=nproc, on_result=progress)
    return bases, runs
