#!/bin/bash
# Runs the repository's stable test-suite (the two module-level infinite-loop helpers that pytest collects by
# accident are deselected; they are not in the stable baseline) against the tree given as $1 (default /repo).
R="${1:-/repo}"; shift
cd "$R" && PYTHONPATH="$R" setsid /venv/bin/python -m pytest -q -p no:cacheprovider --timeout=120 \
  --deselect tests/terminate_test.py::test_loop --deselect tests/terminate_server_test.py::test_loop \
  -x -q "$@" </dev/null 2>&1 | tail -25
