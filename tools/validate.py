#!/usr/bin/env python3
"""Validate MANIFEST.json and evidence/*.json against the schemas (run with python3-vt, which has jsonschema)."""
import sys, json, glob, os
import jsonschema
HOME = os.path.dirname(os.path.dirname(os.path.abspath(__file__)))
ok = True
man = json.load(open(os.path.join(HOME, 'MANIFEST.json')))
jsonschema.validate(man, json.load(open(os.path.join(HOME, 'tools', 'schemas', 'MANIFEST.schema.json'))))
print('MANIFEST.json valid; %d checks, %d not_applicable' % (len(man['checks']), len(man.get('not_applicable', []))))
if '--manifest-only' not in sys.argv:
    es = json.load(open(os.path.join(HOME, 'tools', 'schemas', 'EVIDENCE.schema.json')))
    for f in sorted(glob.glob(os.path.join(HOME, 'evidence', 'C*.json'))):
        try:
            jsonschema.validate(json.load(open(f)), es)
            print('valid', os.path.basename(f))
        except Exception as e:
            ok = False
            print('INVALID', f, str(e)[:300])
sys.exit(0 if ok else 1)
