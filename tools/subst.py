#!/usr/bin/env python3
"""subst.py FILE OLDFILE NEWFILE - replace one occurrence of OLD text with NEW, preserving the file's CRLF/LF convention."""
import sys
p, o, n = sys.argv[1:4]
raw = open(p, newline='').read()
crlf = '\r\n' in raw
old = open(o).read(); new = open(n).read()
if crlf:
    old = old.replace('\r\n', '\n').replace('\n', '\r\n'); new = new.replace('\r\n', '\n').replace('\n', '\r\n')
assert raw.count(old) == 1, 'old text occurs %d times' % raw.count(old)
open(p, 'w', newline='').write(raw.replace(old, new))
