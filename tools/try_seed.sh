#!/bin/bash
# try_seed.sh <dir with patch.diff> <PROP> [tier]  - applies the patch to a scratch worktree of /repo HEAD and runs the check there
set -u
D="$(realpath "$1")"; P="$2"; T="${3:-quick}"
N="$(echo "$D" | tr '/' '_')"
WT="/tmp/mt/$N"
rm -rf "$WT"; git -C /repo worktree prune; mkdir -p /tmp/mt
git -C /repo worktree add -q --detach "$WT" HEAD || exit 3
if ! git -C "$WT" apply "$D/patch.diff"; then echo "PATCH DOES NOT APPLY"; git -C /repo worktree remove --force "$WT"; exit 4; fi
mkdir -p /tmp/mt/ev_$N
cd /verif && PWV_REPO="$WT" PWV_EVIDENCE_DIR=/tmp/mt/ev_$N PWV_REPLAY_DIR=/tmp/mt/ev_$N timeout 3000 ./check "$P" --tier "$T" 2>&1 | grep -E "VIOLATION|KNOWN-FINDING|CHECK-BROKEN|^\[$P\]" | cut -c1-400
rc=${PIPESTATUS[0]}
git -C /repo worktree remove --force "$WT"; rm -rf /tmp/mt/ev_$N
echo "rc=$rc"
