#!/usr/bin/env python3
"""Regenerates /verif/MANIFEST.json from the metadata of the property modules in pwv/props."""
import os, sys, json, importlib, subprocess
HOME = os.path.dirname(os.path.dirname(os.path.abspath(__file__)))
sys.path.insert(0, HOME)
os.environ.setdefault('PWV_HOME', HOME)
props = [json.loads(l) for l in open(os.path.join(HOME, 'properties.jsonl'))]
checks, na = [], []
PENDING = json.load(open(os.path.join(HOME, 'tools', 'pending.json'))) if os.path.exists(os.path.join(HOME, 'tools', 'pending.json')) else {}
for p in props:
    pid = p['id']
    path = os.path.join(HOME, 'pwv', 'props', pid.lower() + '.py')
    if not os.path.exists(path) or pid in PENDING:
        na.append({'property_id': pid, 'reason': PENDING.get(pid, 'check not built yet (planned engine in DESIGN.md section 3); nothing is claimed for it')})
        continue
    src = open(path).read()
    ns = {}
    # metadata is plain module-level constants; extract without importing pyworkers
    for name in ('LEVEL', 'TECHNIQUE', 'LEVEL_TEXT', 'LEVEL_NOTE', 'ENGINE', 'DESIGN_REF'):
        import re
        m = re.search(r'^%s\s*=\s*(\(.*?\)|\'.*?\'|".*?")\s*$' % name, src, re.S | re.M)
        if m:
            ns[name] = eval(m.group(1))
    checks.append({
        'property_id': pid,
        'quick_cmd': './check %s --tier quick' % pid,
        'thorough_cmd': './check %s --tier thorough' % pid,
        'evidence_file': '/verif/evidence/%s.json' % pid,
        'replay_cmd_template': './check %s --replay {path}' % pid,
        'engine': ns.get('ENGINE', ''),
        'level_claimed': {'category': ns['LEVEL'], 'text': ns.get('LEVEL_TEXT', ''), 'design_ref': ns.get('DESIGN_REF', 'DESIGN.md section 3, ' + pid)},
        'level_note': ns.get('LEVEL_NOTE', ''),
        'technique': ns.get('TECHNIQUE', ''),
    })
hooks_commits = [l.strip() for l in open(os.path.join(HOME, 'tools', 'hook_commits.txt'))] if os.path.exists(os.path.join(HOME, 'tools', 'hook_commits.txt')) else []
man = {
    'version': 1,
    'setup_cmd': 'cd /verif && /venv/bin/python -c "import pyworkers, sys; sys.path.insert(0, \'/verif\'); import pwv.core" && python3-vt tools/validate.py --manifest-only',
    'hooks': {
        'guard': 'PWV_SPEC',
        'enable': 'no source hooks in /repo: checks put /verif/inject (a sitecustomize.py that is inert unless PWV_SPEC names a spec file) on PYTHONPATH of the processes they start, and rebind module attributes in-process; pyworkers is imported from /repo\'s working tree (PYTHONPATH=/repo)',
        'baseline_off_cmd': 'cd /repo && /venv/bin/python -m pytest -ra -q -p no:cacheprovider --timeout=900 --continue-on-collection-errors',
        'source_commits': hooks_commits,
        'add_only': True,
    },
    'engines': [
        {'name': 'STREAM', 'path': 'pwv/stream.py', 'serves_properties': ['C10', 'C11', 'C20'], 'kind_free_text': 'exhaustive enumeration of recv segmentations and truncation offsets against the real framing code / real server'},
        {'name': 'POOLX', 'path': 'pwv/poolx.py', 'serves_properties': ['C07', 'C08', 'C09'], 'kind_free_text': 'explicit-state exploration of the real Pool.run closed with scripted workers; traces replayed on real workers'},
        {'name': 'GRAPH', 'path': 'pwv/graph.py', 'serves_properties': ['C13', 'C14', 'C15'], 'kind_free_text': 'bounded-exhaustive object-graph / class-hierarchy enumeration'},
        {'name': 'SCHED', 'path': 'pwv/sched.py', 'serves_properties': ['C19', 'C15'], 'kind_free_text': 'preemption-bounded exhaustive thread interleaving (stateless, CHESS style) on the real code'},
        {'name': 'LAND', 'path': 'pwv/land.py', 'serves_properties': ['C01', 'C03', 'C06', 'C12', 'C16', 'C20'], 'kind_free_text': 'landing-point / crash-point enumeration inside the real child'},
        {'name': 'SEQ', 'path': 'pwv/seq.py', 'serves_properties': ['C02', 'C04', 'C05', 'C09', 'C17', 'C18', 'C19'], 'kind_free_text': 'bounded operation histories on real objects against a reference model'},
    ],
    'checks': checks,
    'not_applicable': na,
    'notes': 'All checks: ./check <ID> --tier quick|thorough (cwd /verif). Known defects recorded in known_findings.json; seeded breaking changes in seeded/.',
}
json.dump(man, open(os.path.join(HOME, 'MANIFEST.json'), 'w'), indent=1)
print('checks:', [c['property_id'] for c in checks]); print('not_applicable:', [n['property_id'] for n in na])
