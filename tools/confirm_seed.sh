#!/bin/bash
# confirm_seed.sh <src dir with patch.diff demo.py meta.json> <seed id, e.g. C10-A>
# Confirms in a scratch worktree: demo passes on the unchanged tree, patch applies, demo fails with it, stable tests pass
# with it. On success copies the seed to /verif/seeded/<id>/ with a "confirmed" record in meta.json.
set -u
S="$(realpath "$1")"; ID="$2"
WT="/tmp/mt/confirm_$ID"; rm -rf "$WT"; git -C /repo worktree prune; mkdir -p /tmp/mt
git -C /repo worktree add -q --detach "$WT" "${BASE:-HEAD}" || exit 3
run_demo() { ( cd "$WT" && PYTHONPATH="$WT" timeout 120 /venv/bin/python "$S/demo.py" >/tmp/mt/demo_$ID.out 2>&1 </dev/null; echo $? ); }
c1=$(run_demo); c1b=$(run_demo)
git -C "$WT" apply "$S/patch.diff" || { echo "$ID: PATCH DOES NOT APPLY"; git -C /repo worktree remove --force "$WT"; exit 4; }
m1=$(run_demo); m1b=$(run_demo)
tests=$(python3 /verif/tools/repo_tests.py "$WT" 2>&1 | head -3 | tr '\n' ' ')
git -C /repo worktree remove --force "$WT"
echo "$ID: demo clean rc=$c1,$c1b  mutated rc=$m1,$m1b  tests: $tests"
if [ "$c1" = 0 ] && [ "$c1b" = 0 ] && [ "$m1" != 0 ] && [ "$m1b" != 0 ] && echo "$tests" | grep -q "missing=0"; then
  mkdir -p /verif/seeded/$ID && cp "$S/patch.diff" "$S/demo.py" /verif/seeded/$ID/ && python3 - "$S/meta.json" /verif/seeded/$ID/meta.json "$tests" "$(git -C /repo rev-parse --short "${BASE:-HEAD}")" <<'PY'
import json,sys
try: m=json.load(open(sys.argv[1]))
except Exception as e: m={'note':'agent meta.json unreadable: %s'%e}
m['confirmed']={'base_commit':sys.argv[4],'demo_on_unchanged_tree':'exit 0 (twice)','demo_with_patch':'non-zero exit (twice)','stable_tests_with_patch':sys.argv[3].strip(),'how':'tools/confirm_seed.sh in a scratch git worktree of /repo'}
json.dump(m,open(sys.argv[2],'w'),indent=1)
PY
  echo "$ID: CONFIRMED -> /verif/seeded/$ID"
else
  echo "$ID: NOT CONFIRMED"; tail -5 /tmp/mt/demo_$ID.out
fi
