#!/usr/bin/env python3
"""repo_tests.py [REPO_DIR] - run the repository test-suite (minus the two accidental infinite-loop helpers) and compare
with the stable baseline (/root/.vp/BASELINE.json). Exit 0 iff every stable test passes."""
import sys, os, json, subprocess, tempfile, xml.etree.ElementTree as ET
repo = sys.argv[1] if len(sys.argv) > 1 else '/repo'
extra = sys.argv[2:]
base = json.load(open('/root/.vp/BASELINE.json'))
stable = set(base['stable_pass'])
fd, xml = tempfile.mkstemp(suffix='.xml'); os.close(fd)
env = dict(os.environ, PYTHONPATH=repo)
env.pop('PWV_SPEC', None)
cmd = ['/venv/bin/python', '-m', 'pytest', '-q', '-p', 'no:cacheprovider', '--timeout=120',
       '--deselect', 'tests/terminate_test.py::test_loop', '--deselect', 'tests/terminate_server_test.py::test_loop',
       '--continue-on-collection-errors', '--reruns', '3', '--junitxml=' + xml] + extra
p = subprocess.run(cmd, cwd=repo, env=env, stdin=subprocess.DEVNULL, stdout=subprocess.PIPE, stderr=subprocess.STDOUT, start_new_session=True)
passed = set()
for tc in ET.parse(xml).getroot().iter('testcase'):
    if not any(c.tag in ('failure', 'error', 'skipped') for c in tc):
        passed.add('%s::%s' % (tc.get('classname'), tc.get('name')))
os.unlink(xml)
missing = sorted(stable - passed)
print('stable=%d passed_of_stable=%d missing=%d' % (len(stable), len(stable & passed), len(missing)))
for m in missing[:30]:
    print('  MISSING', m)
if missing:
    print(p.stdout.decode()[-3000:])
sys.exit(1 if missing else 0)
