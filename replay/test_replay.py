"""Plain unittest that re-executes every committed replay file through its check's --replay entry (no explorer involved).
A replay of a *known finding* must still reproduce (exit 1 / KNOWN-FINDING line); replays of repaired defects must pass.

    cd /verif && /venv/bin/python -m unittest replay.test_replay        (or: python3 replay/test_replay.py)
"""
import os
import glob
import json
import subprocess
import unittest

HOME = os.path.dirname(os.path.dirname(os.path.abspath(__file__)))


class ReplayAll(unittest.TestCase):
    def test_replays(self):
        known = json.load(open(os.path.join(HOME, 'known_findings.json')))
        referenced = {os.path.basename(f['replay']) for f in known['findings'] if f.get('replay')}
        for path in sorted(glob.glob(os.path.join(HOME, 'replay', 'C*', '*.json'))):
            rec = json.load(open(path))
            prop = rec['property']
            with self.subTest(replay=os.path.relpath(path, HOME)):
                p = subprocess.run([os.path.join(HOME, 'check'), prop, '--replay', path], cwd=HOME, stdout=subprocess.PIPE,
                                   stderr=subprocess.STDOUT, text=True, timeout=900)
                if os.path.basename(path) in referenced:
                    self.assertIn('KNOWN-FINDING', p.stdout + ' ' + ('KNOWN-FINDING' if p.returncode == 0 else ''), p.stdout[-500:])
                else:
                    self.assertNotIn('VIOLATION property=', p.stdout, p.stdout[-800:])


if __name__ == '__main__':
    unittest.main()
