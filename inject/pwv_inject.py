"""LAND child-side tracer (PEP 669 sys.monitoring). Inert unless configured.

A spec (dict, or JSON file named by $PWV_SPEC) says where to arm and what to deliver at the k-th LINE event of the armed
thread:  {"run_dir": dir, "arm": {"file": "process.py", "func": "_run", "cls": "ProcessWorker", "line_text": "..."},
          "files": ["pyworkers/", "pwv/targets.py"], "events": [{"k": 7, "action": "terminate"}], "tag": "case-17"}
actions: "terminate" (rendezvous: pause, tell the driver, resume when the real async exception has been posted or has
become undeliverable), "sigkill", "sigterm", "raise" (raise RuntimeError in the child), "pause" (rendezvous without
terminate: the driver does something and writes the release file).
"""
import os
import sys
import json
import time
import signal
import threading

TOOL = 3
ANCHORED = ('_run', '_run_backend', 'do_work', 'run', '_init_child', '_cleanup', '_send_result', '_fetch_results')
_state = None


class _State:
    def __init__(self, spec):
        self.spec = spec
        self.run_dir = spec.get('run_dir')
        arm = spec['arm']
        self.arm_file = arm['file']
        self.arm_func = arm['func']
        self.arm_cls = arm.get('cls')
        self.arm_text = arm['line_text']
        self.arm_hit = arm.get('hit', 1)
        self.files = tuple(spec.get('files') or ['pyworkers/'])
        self.events = {e['k']: e for e in spec.get('events', [])}
        self.armed_thread = None
        self.armed_obj = None
        self.arming = None            # code object whose next line event arms
        self.hits = 0
        self.count = 0
        self.sites = []
        self.landed = []
        self.posted = threading.Event()
        self.nposted = 0
        self.worker = None
        self.log = None
        self.arm_lines = {}
        self.done = False
        # post-call mode: the landing alphabet is "right after a call made by a run-loop function has returned" (the instruction
        # following each CALL) instead of the line starts: the two differ where the next line lies in another try range
        self.post = bool(spec.get('post_call'))
        self.instr = set()

    def arm_line_of(self, code):
        """Line number(s) of the arming statement inside this code object (located by source text, not by number)."""
        key = code
        if key in self.arm_lines:
            return self.arm_lines[key]
        lines = ()
        try:
            import linecache
            first = code.co_firstlineno
            out = []
            for ln in sorted(set(l for (_, _, l) in code.co_lines() if l)):
                if linecache.getline(code.co_filename, ln).strip() == self.arm_text:
                    out.append(ln)
            lines = tuple(out[:1])
        except Exception:  # noqa
            pass
        self.arm_lines[key] = lines
        return lines


def _on_line(code, line):
    st = _state
    if st is None or st.done:
        return None
    fn = code.co_filename
    interesting = False
    for f in st.files:
        if f in fn:
            interesting = True
            break
    if not interesting:
        return sys.monitoring.DISABLE
    if st.armed_thread is None:
        # not armed yet: look for the arming statement
        if st.arming is not None:
            if code is st.arming[0] and threading.get_ident() == st.arming[1]:
                st.armed_thread = st.arming[1]
                st.armed_obj = threading.current_thread()     # idents are reused once the thread is gone; objects are not
                st.arming = None
                _open_log(st)
                if st.post:
                    _instrument_stack(st)
                # this very event is event number 1
            else:
                return None
        else:
            if code.co_name == st.arm_func and fn.endswith(st.arm_file) and line in st.arm_line_of(code):
                frame = sys._getframe(1)
                while frame is not None and frame.f_code is not code:
                    frame = frame.f_back
                slf = frame.f_locals.get('self') if frame is not None else None
                if st.arm_cls is None or type(slf).__name__ == st.arm_cls:
                    st.hits += 1
                    if st.hits == st.arm_hit:
                        st.worker = slf
                        st.arming = (code, threading.get_ident())
                        if st.post:
                            _instrument(st, code)     # the return of the arming statement's own call is the first point
            return None
    if threading.get_ident() != st.armed_thread or threading.current_thread() is not st.armed_obj:
        return None
    if st.post:
        _instrument(st, code)
        return None          # line starts are not counted in this mode
    if _is_try_line(fn, line):
        # the NOP CPython emits for a "try:" line lies outside every exception-table range (even the one of an enclosing
        # try) and is no eval-breaker site: a real asynchronous exception can never be raised there, so it is no landing point
        return None
    st.count += 1
    k = st.count
    site = (os.path.basename(fn), line, code.co_name)
    if not (code.co_name in ANCHORED or site[0] in ('targets.py', 'statew.py')):
        # nearest enclosing frame of the run loop / harness target: the landing is "inside a call made from there"
        f = sys._getframe(1)
        depth = 0
        while f is not None and depth < 40:
            c = f.f_code
            b = os.path.basename(c.co_filename)
            if c is not code and (c.co_name in ANCHORED or b in ('targets.py', 'statew.py')) and ('pyworkers' in c.co_filename or 'pwv' in c.co_filename):
                site = site + (b, f.f_lineno, c.co_name)
                break
            f = f.f_back
            depth += 1
    st.sites.append(site)
    if st.log is not None:
        st.log.write(' '.join(str(x) for x in (k,) + site) + '\n')
        st.log.flush()
    ev = st.events.get(k)
    if ev is not None:
        _deliver(st, k, ev, site)
    return None


_post = {}
_CALLS = ('CALL', 'CALL_FUNCTION_EX', 'CALL_KW')


def _post_offsets(code):
    """offset of the instruction following each CALL -> (line, crosses a try boundary?)."""
    r = _post.get(code)
    if r is not None:
        return r
    r = {}
    try:
        import dis
        ins = list(dis.get_instructions(code))
        table = dis._parse_exception_table(code)

        def handler(off):
            for e in table:
                if e.start <= off < e.end:
                    return e.target
            return None
        for i, x in enumerate(ins[:-1]):
            if x.opname not in _CALLS:
                continue
            o = ins[i + 1].offset
            line = x.positions.lineno if x.positions else None
            j = i + 1
            while j < len(ins) and not (ins[j].starts_line is not None and ins[j].positions.lineno != line):
                j += 1
            while j < len(ins) and ins[j].opname == 'NOP':
                j += 1
            nxt = ins[j].offset if j < len(ins) else None
            r[o] = (line, nxt is None or handler(o) != handler(nxt))
    except Exception:  # noqa
        pass
    _post[code] = r
    return r


def _instrument(st, code):
    if code in st.instr:
        return
    st.instr.add(code)
    if code.co_name in ANCHORED or os.path.basename(code.co_filename) in ('targets.py', 'statew.py'):
        try:
            sys.monitoring.set_local_events(TOOL, code, sys.monitoring.events.INSTRUCTION)
        except ValueError:
            pass


def _instrument_stack(st):
    f = sys._getframe(2)
    depth = 0
    while f is not None and depth < 60:
        c = f.f_code
        if any(x in c.co_filename for x in st.files):
            _instrument(st, c)
        f = f.f_back
        depth += 1
    w = st.worker
    for klass in type(w).__mro__ if w is not None else ():
        for name in ANCHORED:
            fn = klass.__dict__.get(name)
            c = getattr(fn, '__code__', None)
            if c is not None and any(x in c.co_filename for x in st.files):
                _instrument(st, c)


def _on_instr(code, offset):
    st = _state
    if st is None or st.done or not st.post:
        return None
    info = _post_offsets(code).get(offset)
    if info is None:
        return sys.monitoring.DISABLE
    if st.armed_thread is None:
        if st.arming is not None and code is st.arming[0] and threading.get_ident() == st.arming[1] and info[0] in st.arm_line_of(code):
            st.armed_thread = st.arming[1]
            st.armed_obj = threading.current_thread()
            st.arming = None
            _open_log(st)
            _instrument_stack(st)
        else:
            return None
    if threading.get_ident() != st.armed_thread or threading.current_thread() is not st.armed_obj:
        return None
    line, boundary = info
    st.count += 1
    k = st.count
    site = (os.path.basename(code.co_filename), line, code.co_name + ('+ret!' if boundary else '+ret'))
    st.sites.append(site)
    if st.log is not None:
        st.log.write(' '.join(str(x) for x in (k,) + site) + '\n')
        st.log.flush()
    ev = st.events.get(k)
    if ev is not None:
        _deliver(st, k, ev, site)
    return None


_try_lines = {}


def _is_try_line(fn, line):
    key = (fn, line)
    r = _try_lines.get(key)
    if r is None:
        import linecache
        r = linecache.getline(fn, line).strip() in ('try:', 'else:', 'finally:')
        _try_lines[key] = r
    return r


def _open_log(st):
    if st.run_dir and st.spec.get('log', True) and not st.spec.get('inprocess'):
        try:
            st.log = open(os.path.join(st.run_dir, 'events.%d.log' % os.getpid()), 'w')
        except OSError:
            st.log = None


def _ctrl_thread_alive(st):
    w = st.worker
    for name in ('_ctrl_thread', '_ctrl_thread_loc'):
        t = getattr(w, name, None)
        if t is not None:
            return t.is_alive()
    return None       # thread workers: no control thread, the parent posts directly


def _deliver(st, k, ev, site):
    action = ev['action']
    rec = {'k': k, 'site': list(site), 'action': action}
    try:
        rec['user_state'] = json.loads(json.dumps(getattr(st.worker, '_user_state', None)))
    except Exception:  # noqa
        rec['user_state'] = 'unrepresentable'
    st.landed.append(rec)
    if action in ('sigkill', 'sigterm'):
        _write(st, 'reached.%d' % len(st.landed), rec)
        if st.log is not None:
            st.log.close()
        os.kill(os.getpid(), signal.SIGKILL if action == 'sigkill' else signal.SIGTERM)
        time.sleep(5)
        return
    if action == 'sleep':
        # a preemption of the armed thread at this line: everybody else gets time to run
        time.sleep(float(ev.get('seconds', 0.1)))
        return
    if action == 'raise':
        _write(st, 'reached.%d' % len(st.landed), rec)
        raise RuntimeError('pwv injected failure at event %d' % k)
    if action == 'interrupt':
        # what the default SIGINT handler does to the main thread of a child (Ctrl-C reaches the whole process group)
        _write(st, 'reached.%d' % len(st.landed), rec)
        raise KeyboardInterrupt()
    # rendezvous
    want = st.nposted + 1
    _write(st, 'reached.%d' % len(st.landed), rec)
    t0 = time.time()
    cap = float(ev.get('cap', 8.0))
    release = None
    relfile = os.path.join(st.run_dir, 'release.%d' % len(st.landed)) if st.run_dir else None
    while True:
        if action == 'terminate':
            if st.nposted >= want:
                release = 'posted'
                break
            alive = _ctrl_thread_alive(st)
            if alive is False:
                # the control thread is gone and nothing was posted: the request can no longer be delivered
                if st.nposted >= want:
                    release = 'posted'
                else:
                    release = 'undeliverable'
                break
        if relfile and os.path.exists(relfile):
            release = 'released'
            break
        if time.time() - t0 > cap:
            release = 'cap'
            break
        time.sleep(0.0005)
    rec['release'] = release
    rec['waited'] = round(time.time() - t0, 4)
    _write(st, 'landed.%d' % len(st.landed), rec)
    # a pending async exception is raised by the interpreter as soon as this callback executes its next bytecodes and
    # propagates into the monitored frame at this line


def _write(st, name, obj):
    if not st.run_dir:
        return
    p = os.path.join(st.run_dir, name)
    try:
        with open(p + '.tmp', 'w') as f:
            json.dump(obj, f)
        os.rename(p + '.tmp', p)
    except OSError:
        pass


def _wrap_foreign_raise():
    """After the real PyThreadState_SetAsyncExc the tracer may let the paused thread go."""
    import importlib
    for modname in ('pyworkers.thread', 'pyworkers.process', 'pyworkers.remote'):
        try:
            mod = importlib.import_module(modname)
        except Exception:  # noqa
            continue
        real = getattr(mod, 'foreign_raise', None)
        if real is None or getattr(real, '_pwv_wrapped', False):
            continue

        def wrapped(tid, exc, _real=real):
            r = _real(tid, exc)
            st = _state
            if st is not None and tid == st.armed_thread:
                st.nposted += 1
            return r
        wrapped._pwv_wrapped = True
        wrapped._pwv_real = real
        setattr(mod, 'foreign_raise', wrapped)


def configure(spec):
    """In-process use (thread kinds): (re)arm the tracer with a spec dict. None switches it off."""
    global _state
    mon = sys.monitoring
    if spec is None:
        if _state is not None:
            _state.done = True
        _state = None
        return
    st = _State(spec)
    st.spec['inprocess'] = spec.get('inprocess', True)
    _state = st
    _ensure_tool()
    _wrap_foreign_raise()
    mon.restart_events()


_tool_ready = False


def _ensure_tool():
    global _tool_ready
    if _tool_ready:
        return
    mon = sys.monitoring
    try:
        mon.use_tool_id(TOOL, 'pwv-land')
    except ValueError:
        mon.free_tool_id(TOOL)
        mon.use_tool_id(TOOL, 'pwv-land')
    mon.register_callback(TOOL, mon.events.LINE, _on_line)
    mon.register_callback(TOOL, mon.events.INSTRUCTION, _on_instr)
    mon.set_events(TOOL, mon.events.LINE)
    _tool_ready = True


def shutdown():
    global _tool_ready, _state
    _state = None
    if _tool_ready:
        mon = sys.monitoring
        mon.set_events(TOOL, 0)
        mon.register_callback(TOOL, mon.events.LINE, None)
        mon.register_callback(TOOL, mon.events.INSTRUCTION, None)
        mon.free_tool_id(TOOL)
        _tool_ready = False


def state():
    st = _state
    if st is None:
        return None
    return {'armed': st.armed_thread is not None, 'count': st.count, 'sites': [list(s) for s in st.sites],
            'landed': list(st.landed)}


def install():
    """Called from sitecustomize in every descendant when PWV_SPEC is set: read the spec file and install lazily."""
    global _state
    path = os.environ.get('PWV_SPEC')
    if not path:
        return
    try:
        with open(path) as f:
            spec = json.load(f)
    except (OSError, ValueError):
        return
    if spec.get('off'):
        return
    st = _State(spec)
    st.spec['inprocess'] = False
    _state = st
    _ensure_tool()
    # foreign_raise wrappers need pyworkers imported; do it lazily when the arming module gets imported
    _LazyWrap.install()


class _LazyWrap:
    """Wrap foreign_raise right after pyworkers.process / pyworkers.remote have been imported (import hook-free: the
    arming function itself runs long after the import, so wrapping at the first interesting LINE event is enough)."""
    done = False

    @classmethod
    def install(cls):
        global _on_line
        real = _on_line

        def first(code, line):
            if not cls.done and 'pyworkers' in sys.modules and ('pyworkers.process' in sys.modules or 'pyworkers.remote' in sys.modules):
                fn = code.co_filename
                if 'pyworkers/' in fn and code.co_name in ('_run', '_run_backend', '_ctrl_fn', '_ctrl_fn_local', 'do_work', 'run'):
                    cls.done = True
                    _wrap_foreign_raise()
            return real(code, line)
        sys.monitoring.register_callback(TOOL, sys.monitoring.events.LINE, first)
