# Imported by every Python process that has /verif/inject on PYTHONPATH (i.e. the processes a check starts and their
# spawn descendants). Completely inert unless PWV_QUIET or PWV_SPEC is set.
import os as _os

if _os.environ.get('PWV_QUIET') == '1':
    try:
        import logging as _logging
        _logging.getLogger().addHandler(_logging.NullHandler())   # children of real workers log expected tracebacks; keep check output readable
    except Exception:  # noqa
        pass

if _os.environ.get('PWV_SPEC'):
    try:
        import pwv_inject as _pwv_inject
        _pwv_inject.install()
    except Exception as _e:  # noqa
        import sys as _sys
        _sys.stderr.write('pwv_inject failed: %r\n' % (_e,))
